package bmc

// Demonstration for the C14 finding in walkSDRs (run with:
// /verif/tools/run_finding.sh /verif/findings/sdr_own_id_test.go).
//
// The first record of a repository is requested with record ID 0x0000; its
// own ID is in its header. walkSDRs stored it under the requested ID.

import (
	"context"
	"testing"

	"github.com/gebn/bmc/pkg/ipmi"
)

var findingFSRBody = []byte{
	0x20, 0x00, 0x01, // key: owner, LUN, sensor number
	0x03, 0x01, 0x7f, 0x68, 0x01, 0x01, 0x00, 0x72, 0x00, 0x72, 0x3f, 0x3f,
	0x80, 0x01, 0x00, 0x00, 0x01, 0x00, 0x00, 0x00, 0x00, 0x00, 0x07,
	0x28, 0x59, 0xfc, 0x7f, 0x80,
	0x64, 0x64, 0x5f, 0x00, 0x00, 0x00, 0x02, 0x02,
	0x00, 0x00, 0x00,
	0xc8, 0x43, 0x50, 0x55, 0x20, 0x54, 0x65, 0x6d, 0x70,
}

// fakeSDRSession serves a repository of full sensor records with the given own IDs, in order.
type fakeSDRSession struct {
	Session
	ids []ipmi.RecordID
}

func (f *fakeSDRSession) ReserveSDRRepository(context.Context) (*ipmi.ReserveSDRRepositoryRsp, error) {
	return &ipmi.ReserveSDRRepositoryRsp{ReservationID: 0x1234}, nil
}

func (f *fakeSDRSession) SendCommand(_ context.Context, c ipmi.Command) (ipmi.CompletionCode, error) {
	cmd := c.(*ipmi.GetSDRCmd)
	idx := -1
	if cmd.Req.RecordID == ipmi.RecordIDFirst {
		idx = 0
	}
	for i, id := range f.ids {
		if id == cmd.Req.RecordID {
			idx = i
		}
	}
	if idx < 0 {
		return ipmi.CompletionCode(0xcb), nil // requested record not present
	}
	own := f.ids[idx]
	rec := append([]byte{byte(own), byte(own >> 8), 0x51, 0x01, byte(len(findingFSRBody))}, findingFSRBody...)
	next := ipmi.RecordIDLast
	if idx+1 < len(f.ids) {
		next = f.ids[idx+1]
	}
	lo, hi := int(cmd.Req.Offset), int(cmd.Req.Offset)+int(cmd.Req.Length)
	if hi > len(rec) {
		hi = len(rec)
	}
	wire := append([]byte{byte(next), byte(next >> 8)}, rec[lo:hi]...)
	return ipmi.CompletionCodeNormal, cmd.Rsp.DecodeFromBytes(wire, nil)
}

func TestFindingFirstRecordKeyedByItsOwnID(t *testing.T) {
	f := &fakeSDRSession{ids: []ipmi.RecordID{0x0005, 0x0009}}
	repo, err := walkSDRs(context.Background(), f)
	if err != nil {
		t.Fatal(err)
	}
	for _, id := range f.ids {
		if _, ok := repo[id]; !ok {
			t.Errorf("FINDING REPRODUCED: record with own ID %#04x is not in the result under its ID; keys: %v", uint16(id), keysOf(repo))
		}
	}
	if len(repo) != len(f.ids) {
		t.Errorf("got %d records, want %d", len(repo), len(f.ids))
	}
}

func keysOf(r SDRRepository) []ipmi.RecordID {
	var out []ipmi.RecordID
	for k := range r {
		out = append(out, k)
	}
	return out
}
