package ipmi

// Demonstration for the fixed finding "cube-root linearisation of negative readings" (C15).
// Run with: /verif/tools/run_finding.sh /verif/findings/cube_root_negative_test.go
// Before fix commit 06f613f every negative input gave NaN.

import (
	"math"
	"testing"
)

func TestFindingCubeRootOfNegativeReading(t *testing.T) {
	l, err := LinearisationCubeRt.Lineariser()
	if err != nil {
		t.Fatal(err)
	}
	for _, f := range []float64{-8, -1, -0.001, -1e9, 0, 27} {
		got := l.Linearise(f)
		if math.IsNaN(got) || math.Abs(got*got*got-f) > 1e-9*math.Max(1, math.Abs(f)) {
			t.Errorf("cube-root lineariser(%v) = %v, want the real cube root (r^3 == %v)", f, got, f)
		}
	}
}
