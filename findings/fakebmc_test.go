package bmc

// Demonstrations for the C12 findings (run with: /verif/tools/run_finding.sh).
// A scripted transport plays a BMC that follows the RAKP handshake of IPMI
// v2.0 13.17-13.24 with HMAC-SHA1, independently of the library's own
// key-derivation code.

import (
	"context"
	"crypto/hmac"
	"crypto/sha1"
	"encoding/binary"
	"errors"
	"net"
	"testing"
	"time"

	"github.com/gebn/bmc/pkg/ipmi"
)

type fakeBMC struct {
	password []byte
	// algorithms placed in the Open Session Response (nil: echo the request's)
	answer *[3]byte
	sends  []byte // payload types received, in order

	consoleSID uint32
	rm, rc     [16]byte
	guid       [16]byte
	role       byte
	uname      []byte
}

func (f *fakeBMC) Address() net.Addr { return &net.UDPAddr{} }
func (f *fakeBMC) Close() error      { return nil }

func (f *fakeBMC) wrap(ptype byte, payload []byte) []byte {
	b := []byte{0x06, 0x00, 0xff, 0x07, 0x06, ptype, 0, 0, 0, 0, 0, 0, 0, 0, byte(len(payload)), byte(len(payload) >> 8)}
	return append(b, payload...)
}

func (f *fakeBMC) Send(_ context.Context, req []byte) ([]byte, error) {
	if len(req) < 16 {
		return nil, errors.New("short request")
	}
	ptype := req[5] & 0x3f
	p := req[16:]
	f.sends = append(f.sends, ptype)
	const bmcSID = 0x0badcafe
	switch ptype {
	case 0x10: // Open Session Request
		f.consoleSID = binary.LittleEndian.Uint32(p[4:8])
		alg := [3]byte{p[12], p[20], p[28]}
		if f.answer != nil {
			alg = *f.answer
		}
		r := make([]byte, 36)
		r[0] = p[0]
		r[2] = p[1]
		binary.LittleEndian.PutUint32(r[4:8], f.consoleSID)
		binary.LittleEndian.PutUint32(r[8:12], bmcSID)
		copy(r[12:20], []byte{0, 0, 0, 8, alg[0], 0, 0, 0})
		copy(r[20:28], []byte{1, 0, 0, 8, alg[1], 0, 0, 0})
		copy(r[28:36], []byte{2, 0, 0, 8, alg[2], 0, 0, 0})
		return f.wrap(0x11, r), nil
	case 0x12: // RAKP Message 1
		copy(f.rm[:], p[8:24])
		f.role = p[24]
		f.uname = append([]byte{}, p[28:28+int(p[27])]...)
		for i := range f.rc {
			f.rc[i] = byte(0xa0 + i)
			f.guid[i] = byte(0x10 + i)
		}
		h := hmac.New(sha1.New, f.password)
		var sid [4]byte
		binary.LittleEndian.PutUint32(sid[:], f.consoleSID)
		h.Write(sid[:])
		binary.LittleEndian.PutUint32(sid[:], bmcSID)
		h.Write(sid[:])
		h.Write(f.rm[:])
		h.Write(f.rc[:])
		h.Write(f.guid[:])
		h.Write([]byte{f.role, byte(len(f.uname))})
		h.Write(f.uname)
		r := make([]byte, 40)
		r[0] = p[0]
		binary.LittleEndian.PutUint32(r[4:8], f.consoleSID)
		copy(r[8:24], f.rc[:])
		copy(r[24:40], f.guid[:])
		return f.wrap(0x13, h.Sum(r)), nil
	case 0x14: // RAKP Message 3
		sikH := hmac.New(sha1.New, f.password)
		sikH.Write(f.rm[:])
		sikH.Write(f.rc[:])
		sikH.Write([]byte{f.role, byte(len(f.uname))})
		sikH.Write(f.uname)
		sik := sikH.Sum(nil)
		h := hmac.New(sha1.New, sik)
		h.Write(f.rm[:])
		var sid [4]byte
		binary.LittleEndian.PutUint32(sid[:], bmcSID)
		h.Write(sid[:])
		h.Write(f.guid[:])
		r := make([]byte, 8)
		r[0] = p[0]
		binary.LittleEndian.PutUint32(r[4:8], f.consoleSID)
		return f.wrap(0x15, append(r, h.Sum(nil)[:12]...)), nil
	}
	return nil, errors.New("unexpected payload type")
}

func newFakeConn(f *fakeBMC) *V2SessionlessTransport {
	return &V2SessionlessTransport{Transport: f, V2Sessionless: newV2Sessionless(f, time.Second)}
}

// C12: the library proposes cipher suite 17 (SHA256 / SHA256-128 / AES); the
// BMC answers with the algorithms of suite 3 (SHA1 / SHA1-96 / AES) and then
// behaves as a suite-3 BMC. A session with the weaker algorithms is returned.
func TestFindingDowngradedSessionAccepted(t *testing.T) {
	f := &fakeBMC{password: []byte("secret"), answer: &[3]byte{1, 1, 1}}
	s := newFakeConn(f)
	ctx, cancel := context.WithTimeout(context.Background(), 2*time.Second)
	defer cancel()
	sess, err := s.newV2Session(ctx, &V2SessionOpts{
		SessionOpts:  SessionOpts{Username: "admin", Password: []byte("secret"), MaxPrivilegeLevel: ipmi.PrivilegeLevelAdministrator},
		CipherSuites: []ipmi.CipherSuite{ipmi.CipherSuite17},
	})
	if err == nil {
		t.Fatalf("FINDING REPRODUCED: proposed suite 17, BMC answered SHA1/SHA1-96/AES; session returned with authentication algorithm %v (payload types seen by the BMC: %x)", sess.AuthenticationAlgorithm, f.sends)
	}
	t.Logf("refused: %v (payload types seen by the BMC: %x)", err, f.sends)
}

// C12: the caller asks for RAKP-HMAC-SHA1 / HMAC-SHA1-96 / no confidentiality
// (cipher suite 2); a conforming BMC confirms it. Session establishment panics.
func TestFindingConfidentialityNonePanics(t *testing.T) {
	f := &fakeBMC{password: []byte("secret")}
	s := newFakeConn(f)
	ctx, cancel := context.WithTimeout(context.Background(), 2*time.Second)
	defer cancel()
	defer func() {
		if r := recover(); r != nil {
			t.Fatalf("FINDING REPRODUCED: newV2Session panicked for a suite without confidentiality: %v", r)
		}
	}()
	sess, err := s.newV2Session(ctx, &V2SessionOpts{
		SessionOpts: SessionOpts{Username: "admin", Password: []byte("secret"), MaxPrivilegeLevel: ipmi.PrivilegeLevelAdministrator},
		CipherSuites: []ipmi.CipherSuite{{
			AuthenticationAlgorithm:  ipmi.AuthenticationAlgorithmHMACSHA1,
			IntegrityAlgorithm:       ipmi.IntegrityAlgorithmHMACSHA196,
			ConfidentialityAlgorithm: ipmi.ConfidentialityAlgorithmNone,
		}},
	})
	t.Logf("returned sess=%v err=%v", sess != nil, err)
}

// Positive control: a conforming suite-3 handshake succeeds against the fake BMC.
func TestFindingControlSuite3(t *testing.T) {
	f := &fakeBMC{password: []byte("secret")}
	s := newFakeConn(f)
	ctx, cancel := context.WithTimeout(context.Background(), 2*time.Second)
	defer cancel()
	sess, err := s.newV2Session(ctx, &V2SessionOpts{
		SessionOpts:  SessionOpts{Username: "admin", Password: []byte("secret"), MaxPrivilegeLevel: ipmi.PrivilegeLevelAdministrator},
		CipherSuites: []ipmi.CipherSuite{ipmi.CipherSuite3},
	})
	if err != nil || sess == nil {
		t.Fatalf("control handshake failed: %v", err)
	}
}
