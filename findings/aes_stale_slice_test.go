package ipmi

// Demonstration for the C03 finding in (*AES128CBC).SerializeTo (run with:
// /verif/tools/run_finding.sh /verif/findings/aes_stale_slice_test.go).
//
// The slice to encrypt was taken from the buffer before the IV was prepended.
// When prepending the IV makes gopacket's buffer reallocate, CryptBlocks
// encrypts the old array and the datagram carries the payload in clear text.

import (
	"bytes"
	"crypto/aes"
	"crypto/cipher"
	"testing"

	"github.com/google/gopacket"
)

func TestFindingAESPayloadSentInClear(t *testing.T) {
	key := [16]byte{1, 2, 3, 4, 5, 6, 7, 8, 9, 10, 11, 12, 13, 14, 15, 16}
	layer, err := NewAES128CBC(key)
	if err != nil {
		t.Fatal(err)
	}
	for _, n := range []int{1, 7, 15, 16, 20, 40} {
		plain := bytes.Repeat([]byte{0x5a}, n)
		b := gopacket.NewSerializeBuffer() // no room in front: prepending the IV reallocates
		w, _ := b.AppendBytes(n)
		copy(w, plain)
		if err := layer.SerializeTo(b, gopacket.SerializeOptions{}); err != nil {
			t.Fatal(err)
		}
		out := b.Bytes()
		if bytes.Contains(out[16:], plain) {
			t.Errorf("FINDING REPRODUCED: payload of %d bytes appears in clear text after the IV: % x", n, out)
			continue
		}
		blk, _ := aes.NewCipher(key[:])
		dec := make([]byte, len(out)-16)
		cipher.NewCBCDecrypter(blk, out[:16]).CryptBlocks(dec, out[16:])
		if !bytes.Equal(dec[:n], plain) {
			t.Errorf("payload of %d bytes does not decrypt under the key: % x", n, dec)
		}
	}
}
