//go:build verif

package bcd

// Contracts (machine-checked by /verif/engine; see /verif/DESIGN.md).

// specBCD is the mathematical definition of a packed BCD byte: the tens
// digit times ten plus the units digit (arithmetic modulo 256, as the
// return type dictates, for nibbles above 9).
func specBCD(b uint8) uint8 { return (b/16)*10 + b%16 }

//@ func Decode
//@ props C20 C07
//@ assigns nothing
//@ ensures [C20.bcd] result == specBCD(b)
//@ ensures [C20.bcd-digits] b/16 <= 9 && b%16 <= 9 ==> int(result) == int(b/16)*10 + int(b%16) && result <= 99
