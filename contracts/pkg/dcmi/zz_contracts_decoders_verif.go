//go:build verif

package dcmi

// Contracts for the layer decoders (machine-checked by /verif/engine; see
// /verif/DESIGN.md). A block with only `props` puts the function under the
// zero-annotation safety sweep of C05 (index/slice/nil/division/termination
// obligations for every input) and under the generated non-interference
// obligations of C17.

// ---- get_dcmi_capabilities_info.go

//@ func (*getDCMICapabilitiesInfoRspHeader).Decode
//@ props C05 C17

//@ func (*GetDCMICapabilitiesInfoSupportedCapabilitiesRsp).NextLayerType
//@ props C05

//@ func (*GetDCMICapabilitiesInfoSupportedCapabilitiesRsp).DecodeFromBytes
//@ props C05 C17

//@ func (*GetDCMICapabilitiesInfoMandatoryPlatformAttrsRsp).NextLayerType
//@ props C05

//@ func (*GetDCMICapabilitiesInfoMandatoryPlatformAttrsRsp).DecodeFromBytes
//@ props C05 C17

//@ func (*GetDCMICapabilitiesInfoOptionalPlatformAttrsRsp).NextLayerType
//@ props C05

//@ func (*GetDCMICapabilitiesInfoOptionalPlatformAttrsRsp).DecodeFromBytes
//@ props C05 C17

//@ func (*GetDCMICapabilitiesInfoManageabilityAccessAttrsRsp).NextLayerType
//@ props C05

//@ func (*GetDCMICapabilitiesInfoManageabilityAccessAttrsRsp).DecodeFromBytes
//@ props C05 C17

//@ func (*GetDCMICapabilitiesInfoEnhancedSystemPowerStatisticsAttrsRsp).NextLayerType
//@ props C05

//@ func (*GetDCMICapabilitiesInfoEnhancedSystemPowerStatisticsAttrsRsp).DecodeFromBytes
//@ props C05 C17

// ---- get_dcmi_sensor_info.go

//@ func (*GetDCMISensorInfoRsp).NextLayerType
//@ props C05

//@ func (*GetDCMISensorInfoRsp).DecodeFromBytes
//@ props C05 C17
//@ invariant 0 [sensorinfo.a] 0 <= i && i <= recordIDs && len(g.RecordIDs) == i
//@ invariant 0 [sensorinfo.b] forall(qk, 0, i, g.RecordIDs[qk] == ipmi.RecordID(uint16(data[2+2*qk])|uint16(data[3+2*qk])<<8))

// ---- get_power_reading.go

//@ func (*GetPowerReadingRsp).NextLayerType
//@ props C05

//@ func (*GetPowerReadingRsp).DecodeFromBytes
//@ props C05 C17
