//go:build verif

package ipmi

// Spec functions and contracts for the primitive conversions of pkg/ipmi
// (machine-checked by /verif/engine; see /verif/DESIGN.md).

// bsum8 is the byte sum data[lo] + ... + data[hi-1] modulo 256. The verifier
// treats it as an uninterpreted fold with unfolding axioms; this body is what
// replays execute.
func bsum8(data []byte, lo, hi int) uint8 {
	s := uint8(0)
	for i := lo; i < hi; i++ {
		s += data[i]
	}
	return s
}

//@ func checksum
//@ props C20 C05 C06 C07
//@ assigns nothing
//@ ensures [C20.checksum] result == -bsum8(data, 0, len(data))
//@ ensures [C20.checksum-zero] result+bsum8(data, 0, len(data)) == 0
//@ invariant 0 [C20.checksum-inv] c == bsum8(data, 0, rangeindex+1)

// ---- id_string.go: the three ID-string decoders

//@ func decode8BitAsciiLatin1
//@ props C20 C05 C07
//@ assigns nothing
//@ requires [str.c] 0 <= c && c <= 31
//@ ensures [C20.latin1-consumed] result2 == nil ==> result1 == c && c <= len(b) && len(result0) == c
//@ ensures [C20.latin1-bytes] result2 == nil ==> forall(qk, 0, c, result0[qk] == b[qk])

//@ func decodeBCDPlus
//@ props C20 C05 C07
//@ assigns nothing
//@ requires [str.c] 0 <= c && c <= 31
//@ ensures [C20.bcdplus-consumed] result2 == nil ==> result1 == (c+1)/2 && result1 <= len(b)
//@ ensures [C20.bcdplus-reject] len(b) < (c+1)/2 ==> result2 != nil

//@ func decodePacked6BitAscii
//@ props C20 C05 C07
//@ assigns nothing
//@ requires [str.c] 0 <= c && c <= 31
//@ ensures [C20.packed-consumed] result2 == nil ==> result1 == (c*6+7)/8 && result1 <= len(b)
//@ ensures [C20.packed-reject] len(b) < (c*6+7)/8 ==> result2 != nil
