//go:build verif

package ipmi

// Contracts for the request / layer serialisers of pkg/ipmi (machine-checked
// by /verif/engine; see /verif/DESIGN.md). The gopacket serialize buffer is
// not modelled: gopacket's own PrependBytes / AppendBytes / Bytes are inlined
// from the module cache and verified together with the serialiser, under the
// precondition bufSmall(b) (a well-formed buffer below 1 GiB). Every
// serialiser must (a) keep the buffer valid, (b) put exactly the specified
// bytes in front of the existing content and (c) leave the existing content
// unchanged - (c) is what makes the layers compose. Preconditions on field
// ranges are the wire ranges of the specification; they are obligations at
// the call sites inside the library.

// ---- get_channel_authentication_capabilities.go (22.13)

//@ func (*GetChannelAuthenticationCapabilitiesReq).SerializeTo
//@ props C06
//@ requires [buf] bufSmall(b)
//@ requires [C06.authcapreq-range] g.Channel <= 0x0f && g.MaxPrivilegeLevel <= 0x0f
//@ ensures [C06.authcapreq-ok] result == nil && bufValid(b)
//@ ensures [C06.authcapreq-len] result == nil ==> len(bufBytes(b)) == len(old(bufBytes(b)))+2
//@ ensures [C06.authcapreq-bytes] result == nil ==> bufBytes(b)[0] == uint8(g.Channel)%16+ite(g.ExtendedData, uint8(128), uint8(0)) && bufBytes(b)[1] == uint8(g.MaxPrivilegeLevel)
//@ ensures [C06.authcapreq-payload] result == nil ==> forall(qk, 0, len(old(bufBytes(b))), bufBytes(b)[2+qk] == old(bufBytes(b)[qk]))

// ---- get_channel_cipher_suites.go (22.15)

//@ func (*GetChannelCipherSuitesReq).SerializeTo
//@ props C06 C16
//@ requires [buf] bufSmall(b)
//@ ensures [C06.suitesreq-ok] result == nil && bufValid(b)
//@ ensures [C06.suitesreq-len] result == nil ==> len(bufBytes(b)) == len(old(bufBytes(b)))+3
//@ ensures [C06.suitesreq-bytes] result == nil ==> bufBytes(b)[0] == uint8(c.Channel)%16 && bufBytes(b)[1] == uint8(c.PayloadType)%64 && bufBytes(b)[2] == 128+c.ListIndex%64
//@ ensures [C06.suitesreq-payload] result == nil ==> forall(qk, 0, len(old(bufBytes(b))), bufBytes(b)[3+qk] == old(bufBytes(b)[qk]))

// ---- get_session_info.go (22.20)

//@ func (*GetSessionInfoReq).SerializeTo
//@ props C06
//@ requires [buf] bufSmall(b)
//@ ensures [C06.sessinforeq-ok] result == nil && bufValid(b)
//@ ensures [C06.sessinforeq-len] result == nil ==> len(bufBytes(b)) == len(old(bufBytes(b)))+ite(g.Index == SessionIndexHandle, 2, ite(g.Index == SessionIndexID, 5, 1))
//@ ensures [C06.sessinforeq-bytes] result == nil ==> bufBytes(b)[0] == uint8(g.Index) && (g.Index == SessionIndexHandle ==> bufBytes(b)[1] == uint8(g.Handle)) && (g.Index == SessionIndexID ==> le32(bufBytes(b), 1) == g.ID)
//@ ensures [C06.sessinforeq-payload] result == nil ==> forall(qk, 0, len(old(bufBytes(b))), bufBytes(b)[ite(g.Index == SessionIndexHandle, 2, ite(g.Index == SessionIndexID, 5, 1))+qk] == old(bufBytes(b)[qk]))

// ---- set_session_privilege_level.go (22.18)

//@ func (*SetSessionPrivilegeLevelReq).SerializeTo
//@ props C06
//@ requires [buf] bufSmall(b)
//@ ensures [C06.setprivreq-ok] (result == nil) == (c.PrivilegeLevel != PrivilegeLevelCallback) && bufValid(b)
//@ ensures [C06.setprivreq-len] result == nil ==> len(bufBytes(b)) == len(old(bufBytes(b)))+1
//@ ensures [C06.setprivreq-bytes] result == nil ==> bufBytes(b)[0] == uint8(c.PrivilegeLevel)%16
//@ ensures [C06.setprivreq-payload] result == nil ==> forall(qk, 0, len(old(bufBytes(b))), bufBytes(b)[1+qk] == old(bufBytes(b)[qk]))

// ---- close_session.go (22.19)

//@ func (*CloseSessionReq).SerializeTo
//@ props C06
//@ requires [buf] bufSmall(b)
//@ ensures [C06.closereq-ok] result == nil && bufValid(b)
//@ ensures [C06.closereq-len] result == nil ==> len(bufBytes(b)) == len(old(bufBytes(b)))+ite(c.ID == 0, 5, 4)
//@ ensures [C06.closereq-bytes] result == nil ==> le32(bufBytes(b), 0) == c.ID && (c.ID == 0 ==> bufBytes(b)[4] == uint8(c.Handle))
//@ ensures [C06.closereq-payload] result == nil ==> forall(qk, 0, len(old(bufBytes(b))), bufBytes(b)[ite(c.ID == 0, 5, 4)+qk] == old(bufBytes(b)[qk]))

// ---- chassis_control.go (28.3)

//@ func (*ChassisControlReq).SerializeTo
//@ props C06
//@ requires [buf] bufSmall(b)
//@ ensures [C06.chassisctlreq-ok] result == nil && bufValid(b)
//@ ensures [C06.chassisctlreq-len] result == nil ==> len(bufBytes(b)) == len(old(bufBytes(b)))+1
//@ ensures [C06.chassisctlreq-bytes] result == nil ==> bufBytes(b)[0] == uint8(c.ChassisControl)
//@ ensures [C06.chassisctlreq-payload] result == nil ==> forall(qk, 0, len(old(bufBytes(b))), bufBytes(b)[1+qk] == old(bufBytes(b)[qk]))

// ---- get_sdr.go (33.12)

//@ func (*GetSDRReq).SerializeTo
//@ props C06 C14
//@ requires [buf] bufSmall(b)
//@ ensures [C06.getsdrreq-ok] result == nil && bufValid(b)
//@ ensures [C06.getsdrreq-len] result == nil ==> len(bufBytes(b)) == len(old(bufBytes(b)))+6
//@ ensures [C06.getsdrreq-bytes] result == nil ==> le16(bufBytes(b), 0) == uint16(s.ReservationID) && le16(bufBytes(b), 2) == uint16(s.RecordID) && bufBytes(b)[4] == s.Offset && bufBytes(b)[5] == s.Length
//@ ensures [C06.getsdrreq-payload] result == nil ==> forall(qk, 0, len(old(bufBytes(b))), bufBytes(b)[6+qk] == old(bufBytes(b)[qk]))

// ---- get_sensor_reading.go (35.14)

//@ func (*GetSensorReadingReq).SerializeTo
//@ props C06
//@ requires [buf] bufSmall(b)
//@ ensures [C06.readingreq-ok] result == nil && bufValid(b)
//@ ensures [C06.readingreq-len] result == nil ==> len(bufBytes(b)) == len(old(bufBytes(b)))+1
//@ ensures [C06.readingreq-bytes] result == nil ==> bufBytes(b)[0] == r.Number
//@ ensures [C06.readingreq-payload] result == nil ==> forall(qk, 0, len(old(bufBytes(b))), bufBytes(b)[1+qk] == old(bufBytes(b)[qk]))

// ---- rakp_message_1.go (13.20)

//@ func (*RAKPMessage1).SerializeTo
//@ props C06 C08 C01
//@ requires [buf] bufSmall(b)
//@ ensures [C06.rakp1-long] (result == nil) == (len(r.Username) <= 16)
//@ ensures [C06.rakp1-ok] bufValid(b)
//@ ensures [C06.rakp1-untouched] result != nil ==> len(bufBytes(b)) == len(old(bufBytes(b)))
//@ ensures [C06.rakp1-len] result == nil ==> len(bufBytes(b)) == len(old(bufBytes(b)))+28+len(r.Username)
//@ ensures [C06.rakp1-bytes] result == nil ==> bufBytes(b)[0] == r.Tag && bufBytes(b)[1] == 0 && bufBytes(b)[2] == 0 && bufBytes(b)[3] == 0 && le32(bufBytes(b), 4) == r.ManagedSystemSessionID &&
//@    forall(qk, 0, 16, bufBytes(b)[8+qk] == r.RemoteConsoleRandom[qk]) &&
//@    bufBytes(b)[24] == uint8(r.MaxPrivilegeLevel)%16+ite(r.PrivilegeLevelLookup, uint8(0), uint8(16)) && bufBytes(b)[25] == 0 && bufBytes(b)[26] == 0 &&
//@    bufBytes(b)[27] == uint8(len(r.Username)) && forall(qk, 0, len(r.Username), bufBytes(b)[28+qk] == r.Username[qk])
//@ ensures [C06.rakp1-payload] result == nil ==> forall(qk, 0, len(old(bufBytes(b))), bufBytes(b)[28+len(r.Username)+qk] == old(bufBytes(b)[qk]))

// ---- rakp_message_3.go (13.22)

//@ func (*RAKPMessage3).SerializeTo
//@ props C06 C01
//@ requires [buf] bufSmall(b)
//@ requires [C06.rakp3-authlen] len(r.AuthCode) <= 64
//@ ensures [C06.rakp3-ok] result == nil && bufValid(b)
//@ ensures [C06.rakp3-len] len(bufBytes(b)) == len(old(bufBytes(b)))+8+ite(r.Status == StatusCodeOK, len(old(r.AuthCode)), 0)
//@ ensures [C06.rakp3-bytes] bufBytes(b)[0] == r.Tag && bufBytes(b)[1] == uint8(r.Status) && bufBytes(b)[2] == 0 && bufBytes(b)[3] == 0 && le32(bufBytes(b), 4) == r.ManagedSystemSessionID &&
//@    (r.Status == StatusCodeOK ==> forall(qk, 0, len(r.AuthCode), bufBytes(b)[8+qk] == r.AuthCode[qk]))
//@ ensures [C06.rakp3-payload] forall(qk, 0, len(old(bufBytes(b))), bufBytes(b)[8+ite(r.Status == StatusCodeOK, len(old(r.AuthCode)), 0)+qk] == old(bufBytes(b)[qk]))
