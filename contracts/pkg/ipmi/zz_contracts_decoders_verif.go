//go:build verif

package ipmi

// Contracts for the layer decoders (machine-checked by /verif/engine; see
// /verif/DESIGN.md). A block with only `props` puts the function under the
// zero-annotation safety sweep of C05 (index/slice/nil/division/termination
// obligations for every input) and under the generated non-interference
// obligations of C17.

// ---- aes_128_cbc.go

//@ func (*AES128CBC).NextLayerType
//@ props C05

//@ func (*AES128CBC).DecodeFromBytes
//@ props C05 C17
//@ config a.cipher
//@ requires [aes.cipher] !isnil(a.cipher) // object invariant established by NewAES128CBC, the only constructor
//@ invariant 0 [aes.padscan] padStart <= i && i <= padStart+int(padBytes) && v == uint8(i-padStart)+1 &&
//@    forall(qk, padStart, i, data[qk] == uint8(qk-padStart)+1)

// ---- authentication_payload.go

//@ func (*AuthenticationPayload).Deserialise
//@ props C05 C17

// ---- confidentiality_payload.go

//@ func (*ConfidentialityPayload).Deserialise
//@ props C05 C17

// ---- full_sensor_record.go

//@ func (*FullSensorRecord).NextLayerType
//@ props C05

//@ func (*FullSensorRecord).DecodeFromBytes
//@ props C05 C17

// ---- get_channel_authentication_capabilities.go

//@ func (*GetChannelAuthenticationCapabilitiesRsp).NextLayerType
//@ props C05

//@ func (*GetChannelAuthenticationCapabilitiesRsp).DecodeFromBytes
//@ props C05 C17

// ---- get_channel_cipher_suites.go

//@ func (*GetChannelCipherSuitesRsp).NextLayerType
//@ props C05

//@ func (*GetChannelCipherSuitesRsp).DecodeFromBytes
//@ props C05 C17

// ---- get_chassis_status.go

//@ func (*GetChassisStatusRsp).NextLayerType
//@ props C05

//@ func (*GetChassisStatusRsp).DecodeFromBytes
//@ props C05 C17

// ---- get_device_id.go

//@ func (*GetDeviceIDRsp).NextLayerType
//@ props C05

//@ func (*GetDeviceIDRsp).DecodeFromBytes
//@ props C05 C17

// ---- get_sdr.go

//@ func (*GetSDRRsp).NextLayerType
//@ props C05

//@ func (*GetSDRRsp).DecodeFromBytes
//@ props C05 C17

// ---- get_sdr_repository_info.go

//@ func (*GetSDRRepositoryInfoRsp).NextLayerType
//@ props C05

//@ func (*GetSDRRepositoryInfoRsp).DecodeFromBytes
//@ props C05 C17

// ---- get_sensor_reading.go

//@ func (*GetSensorReadingRsp).NextLayerType
//@ props C05

//@ func (*GetSensorReadingRsp).DecodeFromBytes
//@ props C05 C17

// ---- get_session_info.go

//@ func (*GetSessionInfoRsp).NextLayerType
//@ props C05

//@ func (*GetSessionInfoRsp).DecodeFromBytes
//@ props C05 C17

// ---- get_system_guid.go

//@ func (*GetSystemGUIDRsp).NextLayerType
//@ props C05

//@ func (*GetSystemGUIDRsp).DecodeFromBytes
//@ props C05 C17

// ---- id_string.go

//@ func StringDecoderFunc.Decode
//@ props C05
//@ inline
//@ requires [strdec.f] !isnil(f)
//@ requires [strdec.c] 0 <= c && c <= 31
//@ assigns nothing
//@ ensures [C07.strdec-consumed] result2 == nil ==> 0 <= result1 && result1 <= len(b)

// ---- integrity_payload.go

//@ func (*IntegrityPayload).Deserialise
//@ props C05 C17

// ---- message.go

//@ func (*Message).NextLayerType
//@ props C05

//@ func (*Message).DecodeFromBytes
//@ props C05 C17

// ---- open_session.go

//@ func (*OpenSessionRsp).NextLayerType
//@ props C05

//@ func (*OpenSessionRsp).DecodeFromBytes
//@ props C05 C17

// ---- operation.go

//@ func Operation.NextLayerType
//@ props C05

// ---- payload_descriptor.go

//@ func PayloadDescriptor.NextLayerType
//@ props C05

// ---- rakp_message_1.go

//@ func (*RAKPMessage1).NextLayerType
//@ props C05

//@ func (*RAKPMessage1).DecodeFromBytes
//@ props C05 C17

// ---- rakp_message_2.go

//@ func (*RAKPMessage2).NextLayerType
//@ props C05

//@ func (*RAKPMessage2).DecodeFromBytes
//@ props C05 C17

// ---- rakp_message_4.go

//@ func (*RAKPMessage4).NextLayerType
//@ props C05

//@ func (*RAKPMessage4).DecodeFromBytes
//@ props C05 C17

// ---- record_type.go

//@ func RecordType.NextLayerType
//@ props C05

// ---- reserve_sdr_repository.go

//@ func (*ReserveSDRRepositoryRsp).NextLayerType
//@ props C05

//@ func (*ReserveSDRRepositoryRsp).DecodeFromBytes
//@ props C05 C17

// ---- sdr.go

//@ func (*SDR).NextLayerType
//@ props C05

//@ func (*SDR).DecodeFromBytes
//@ props C05 C17

// ---- session_selector.go

//@ func (*SessionSelector).NextLayerType
//@ props C05

//@ func (*SessionSelector).DecodeFromBytes
//@ props C05 C17

// ---- set_session_privilege_level.go

//@ func (*SetSessionPrivilegeLevelRsp).NextLayerType
//@ props C05

//@ func (*SetSessionPrivilegeLevelRsp).DecodeFromBytes
//@ props C05 C17

// ---- v1session.go

//@ func (*V1Session).NextLayerType
//@ props C05

//@ func (*V1Session).DecodeFromBytes
//@ props C05 C17

// ---- v2session.go

//@ func (*V2Session).NextLayerType
//@ props C05

//@ func (*V2Session).DecodeFromBytes
//@ props C05 C17
//@ config s.IntegrityAlgorithm, s.ConfidentialityLayerType
//@ invariant 0 [v2.padscan] padStart <= offset && offset <= len(data) && forall(qk, padStart, offset-1, data[qk] == 0xff) &&
//@    b == ite(offset == padStart, uint8(0xff), data[offset-1])
