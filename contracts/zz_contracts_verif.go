//go:build verif

package bmc

// Contracts for package bmc (machine-checked by /verif/engine; see /verif/DESIGN.md).

// ---- cipher_suites.go

//@ func parseCipherSuiteRecordData
//@ props C05 C16
