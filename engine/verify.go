package main

// Per-function verification driver: encode, Houdini, solve.

import (
	"fmt"
	"go/types"
	"os"
	"runtime/debug"
	"sort"
	"strings"
	"sync"
	"time"

	"golang.org/x/tools/go/ssa"
)

type OblResult struct {
	O      *Obligation
	Status string // discharged, refuted, undecided, trivial
	Res    SolveResult
	Model  map[string]string
}

type FnResult struct {
	Fn            *ssa.Function
	Name          string
	Err           string
	Results       []*OblResult
	NotDischarged int
	Warnings      []string
	Trusted       []string
	Inlined       []string
	Unmodelled    []string
	HoudiniRounds int
	Enc           *Encoder
	SolverMs      int64
	Backends      map[string]int
	Vacuity       string
}

func encodeFunction(w *World, fn *ssa.Function, dropped map[string]bool) (e *Encoder, err error) {
	defer func() {
		if r := recover(); r != nil {
			if ce, ok := r.(contractError); ok {
				err = ce.err
				return
			}
			err = fmt.Errorf("encoder fault in %s: %v\n%s", fn, r, debug.Stack())
		}
	}()
	e = newEncoder(w, fn)
	e.candDropped = dropped
	c := e.c
	fr := e.newFrame(fn)
	fr.isTop = true
	e.topFrame = fr
	st := &State{m: map[string]*Term{}}
	// ghost classes exist from the start (a class created lazily after a merge of havocked and
	// un-havocked paths would lose its entry value)
	e.get(st, "ghost:sends", Arr(RefS, BV64))
	e.get(st, "ghost:metric", Arr(RefS, BV64))
	e.get(st, "ghost:metricvec", Arr(RefS, Arr(RefS, BV64)))
	e.get(st, "ghost:hash#st", Arr(RefS, IntS))
	e.get(st, "ghost:randfill", Arr(RefS, BV64))
	e.get(st, "ghost:bufwrites", Arr(RefS, BV64))
	e.get(st, "ghost:buflen", Arr(RefS, BV64))
	e.entry = st
	e.cur = st
	if fn.Name() != "init" {
		st = e.seedFromInit(fn, st)
		e.entry = st
		e.cur = st
	}
	var args []*SVal
	for _, p := range fn.Params {
		e.deepPre = true
		v := e.symVal(p.Name(), p.Type())
		e.deepPre = false
		nilable := false
		if ct := w.Contracts[fn]; ct != nil && ct.Options["nilable:"+p.Name()] {
			nilable = true // "option nilable:<param>": the parameter may be nil
		}
		if v.K == KPtr && !nilable {
			e.assumeFact(c.Not(c.Eq(v.T, c.NilRef())))
		}
		if v.K == KIface {
			if !nilable {
				e.assumeFact(c.Not(c.Eq(v.Tag, c.Int(0))))
			}
			e.knownDynType(v)
			if ct := w.Contracts[fn]; ct != nil {
				if T := ct.dynOption(w, p.Name()); T != nil {
					v.Dyn = T
					e.assumeFact(c.Eq(v.Tag, c.Int(int64(w.typeTag(T)))))
				}
			}
		}
		args = append(args, v)
		e.inputs = append(e.inputs, inputVal{p.Name(), v})
		fr.vals[p] = v
	}
	for _, fv := range fn.FreeVars {
		v := e.symVal("fv."+fv.Name(), fv.Type())
		if v.K == KPtr {
			e.assumeFact(c.Not(c.Eq(v.T, c.NilRef())))
		}
		fr.bindings = append(fr.bindings, v)
		fr.vals[fv] = v
	}
	ct := e.contract
	if ct != nil {
		env := e.contractEnv(fr, ct, nil, st, st)
		for _, cl := range ct.Requires {
			e.assumeFact(env.trClause(cl))
		}
	}
	if ct != nil {
		env := e.contractEnv(fr, ct, nil, st, st)
		for _, cl := range ct.Splits {
			e.splits = append(e.splits, env.trClause(cl))
		}
	}
	rv, stOut, reach := e.run(fr, args, c.True(), st.clone())
	if ct != nil && len(fr.rets) > 0 {
		e.guard = reach
		e.cur = stOut
		env := e.contractEnv(fr, ct, nil, stOut, st)
		env.result = rv
		for i, cl := range ct.Ensures {
			if cl.Slow && !thoroughTier {
				skippedSlow++
				continue
			}
			t := env.trClause(cl)
			tag := cl.Tag
			if tag == "" {
				tag = fmt.Sprintf("post%d", i)
			}
			o := e.oblige("ensures", tag, cl.Text, t, fn.Pos())
			if o != nil {
				o.Props = propsOfTag(cl.Tag, ct.Props)
				o.Expr = cl.Text
				o.Clause = cl
			}
		}
	}
	if ct != nil && len(fr.rets) > 0 {
		for _, p := range ct.Props {
			if p == "C17" && strings.Contains(strings.ToLower(fn.Name()), "decode") {
				// generated non-interference obligations are for decoders; send paths list C17 for
				// their "rebuilt from scratch on every attempt" at-call clauses only
				e.guard = reach
				e.cur = stOut
				e.niObligations(fr, ct, rv, stOut, reach)
			}
		}
	}
	e.retVals = rv
	return e, nil
}

// query builds the SMT script for an obligation.
func (e *Encoder) query(o *Obligation, values []*Term) string {
	c := e.c
	var as []*Term
	as = append(as, e.assumptions[:o.NAssume]...)
	as = append(as, o.Extra...)
	as = append(as, o.Guard, c.Not(o.Goal))
	return c.Script(as, values, "")
}

func isGlobalSym(name string) bool {
	if name == "A0" {
		return true
	}
	if len(name) > 2 && name[0] == 'H' && name[1] >= '0' && name[1] <= '9' {
		return true
	}
	return false
}

// localSyms returns the non-heap symbols of a term (memoised per encoder).
func (e *Encoder) localSyms(t *Term) map[*Term]bool {
	e.symMu.Lock()
	if e.symMemo == nil {
		e.symMemo = map[*Term]map[*Term]bool{}
	}
	if r, ok := e.symMemo[t]; ok {
		e.symMu.Unlock()
		return r
	}
	e.symMu.Unlock()
	r := map[*Term]bool{}
	seen := map[*Term]bool{}
	var rec func(x *Term)
	rec = func(x *Term) {
		if seen[x] {
			return
		}
		seen[x] = true
		if x.Op == "sym" {
			if !isGlobalSym(x.Name) {
				r[x] = true
			}
			return
		}
		if x.Op == "app" {
			// uninterpreted function symbols link their axioms
			r[e.c.Sym("uf:"+x.Name, BoolS)] = true
		}
		for _, a := range x.Args {
			rec(a)
		}
	}
	rec(t)
	e.symMu.Lock()
	e.symMemo[t] = r
	e.symMu.Unlock()
	return r
}

// relevantQuery builds the script with only the assumptions in the cone of
// influence of the goal (sharing non-heap symbols, transitively). Dropping
// assumptions is sound for an unsat answer.
func (e *Encoder) relevantQuery(o *Obligation) (string, bool) {
	return e.relevantQueryWith(o, nil)
}

// relevantQueryWith: as relevantQuery, with additional assumptions (case-split literals) that are
// always kept and also seed the cone.
func (e *Encoder) relevantQueryWith(o *Obligation, extra []*Term) (string, bool) {
	c := e.c
	S := map[*Term]bool{}
	for _, x := range extra {
		for k := range e.localSyms(x) {
			S[k] = true
		}
	}
	for k := range e.localSyms(o.Guard) {
		S[k] = true
	}
	for k := range e.localSyms(o.Goal) {
		S[k] = true
	}
	n := o.NAssume
	inc := make([]bool, n)
	cnt := 0
	for changed := true; changed; {
		changed = false
		for i := 0; i < n; i++ {
			if inc[i] {
				continue
			}
			ls := e.localSyms(e.assumptions[i])
			hit := false
			for k := range ls {
				if S[k] {
					hit = true
					break
				}
			}
			if hit {
				inc[i] = true
				cnt++
				changed = true
				for k := range ls {
					S[k] = true
				}
			}
		}
	}
	if cnt == n || len(o.Extra) > 0 {
		return "", false
	}
	var as []*Term
	for i := 0; i < n; i++ {
		if inc[i] {
			as = append(as, e.assumptions[i])
		}
	}
	as = append(as, extra...)
	as = append(as, o.Guard, c.Not(o.Goal))
	return c.Script(as, nil, ""), true
}

func verifyFunction(w *World, fn *ssa.Function, timeout time.Duration, all bool) *FnResult {
	r := &FnResult{Fn: fn, Name: w.funcDisplay(fn), Backends: map[string]int{}}
	dropped := map[string]bool{}
	var e *Encoder
	var err error
	for round := 0; round < 12; round++ {
		r.HoudiniRounds = round + 1
		tEnc := time.Now()
		e, err = encodeFunction(w, fn, dropped)
		if debugTiming {
			fmt.Printf("  [timing] %s round %d encode %v terms=%d\n", fn.Name(), round, time.Since(tEnc), e.c.n)
		}
		if err != nil {
			r.Err = err.Error()
			return r
		}
		// solve candidate obligations
		var cands []*Obligation
		for _, o := range e.obls {
			if o.Kind == "cand" {
				cands = append(cands, o)
			}
		}
		if len(cands) == 0 {
			break
		}
		tS := time.Now()
		res := solveAll(e, cands, 3*time.Second, false)
		if debugTiming {
			fmt.Printf("  [timing] %s round %d solve %d cands %v\n", fn.Name(), round, len(cands), time.Since(tS))
		}
		changed := false
		for _, or := range res {
			if or.Status != "discharged" && or.Status != "trivial" {
				if !dropped[or.O.CandKey] {
					dropped[or.O.CandKey] = true
					changed = true
				}
			}
		}
		if !changed {
			break
		}
	}
	r.Enc = e
	var obls []*Obligation
	for _, o := range e.obls {
		if o.Kind != "cand" {
			obls = append(obls, o)
		}
	}
	tS := time.Now()
	r.Results = solveAll(e, obls, timeout, all)
	if debugTiming {
		fmt.Printf("  [timing] %s final solve %d obls %v\n", fn.Name(), len(obls), time.Since(tS))
	}
	for _, or := range r.Results {
		if or.Status != "discharged" && or.Status != "trivial" {
			r.NotDischarged++
		}
		r.SolverMs += or.Res.Ms
		if or.Res.Backend != "" {
			r.Backends[or.Res.Backend]++
		}
	}
	for k := range e.warnings {
		r.Warnings = append(r.Warnings, k)
	}
	for k := range e.trusted {
		r.Trusted = append(r.Trusted, k)
	}
	for k := range e.inlined {
		r.Inlined = append(r.Inlined, k)
	}
	for k := range e.unmodelled {
		r.Unmodelled = append(r.Unmodelled, k)
	}
	for k := range e.closedWorld {
		r.Trusted = append(r.Trusted, "closed world: "+k)
	}
	sort.Strings(r.Warnings)
	sort.Strings(r.Trusted)
	sort.Strings(r.Inlined)
	sort.Strings(r.Unmodelled)
	// vacuity: the assumptions must be satisfiable together with reaching some return
	r.Vacuity = vacuityCheck(e, timeout)
	return r
}

func vacuityCheck(e *Encoder, timeout time.Duration) string {
	if len(e.topFrame.rets) == 0 {
		return "no-return"
	}
	c := e.c
	var reach []*Term
	for _, rt := range e.topFrame.rets {
		reach = append(reach, rt.reach)
	}
	as := append([]*Term{}, e.assumptions...)
	as = append(as, c.Or(reach...))
	res := Solve("vacuity_"+e.top.Name(), c.Script(as, nil, ""), timeout, false)
	switch res.Status {
	case "sat":
		return "ok"
	case "unsat":
		return "VACUOUS"
	}
	return "unknown"
}

func solveAll(e *Encoder, obls []*Obligation, timeout time.Duration, all bool) []*OblResult {
	out := make([]*OblResult, len(obls))
	var wg sync.WaitGroup
	for i, o := range obls {
		or := &OblResult{O: o}
		out[i] = or
		if o.Goal.IsTrue() || o.Guard.IsFalse() {
			or.Status = "trivial"
			continue
		}
		if len(e.splits) > 0 && o.Kind != "cand" && len(e.splits) <= 4 {
			// case analysis: the obligation holds iff it holds in every case
			wg.Add(1)
			go func(or *OblResult) {
				defer wg.Done()
				n := 1 << uint(len(e.splits))
				res := make([]SolveResult, n)
				var wg2 sync.WaitGroup
				for m := 0; m < n; m++ {
					wg2.Add(1)
					go func(m int) {
						defer wg2.Done()
						var extra []*Term
						for k, sp := range e.splits {
							if m&(1<<uint(k)) != 0 {
								extra = append(extra, sp)
							} else {
								extra = append(extra, e.c.Not(sp))
							}
						}
						as := append([]*Term{}, e.assumptions[:or.O.NAssume]...)
						as = append(as, or.O.Extra...)
						as = append(as, extra...)
						as = append(as, or.O.Guard, e.c.Not(or.O.Goal))
						if rs, ok := e.relevantQueryWith(or.O, extra); ok {
							// cone of influence first: dropping assumptions is sound for an unsat answer
							t1 := timeout / 3
							if t1 < 2*time.Second {
								t1 = 2 * time.Second
							}
							if r := Solve(fmt.Sprintf("%s_case%d_rel", or.O.ID, m), rs, t1, false); r.Status == "unsat" {
								res[m] = r
								return
							}
						}
						res[m] = Solve(fmt.Sprintf("%s_case%d", or.O.ID, m), e.c.Script(as, nil, ""), timeout, all)
					}(m)
				}
				wg2.Wait()
				or.Status = "discharged"
				for _, r := range res {
					or.Res.Ms += r.Ms
					if or.Res.Backend == "" {
						or.Res.Backend = r.Backend
					}
					switch r.Status {
					case "unsat":
					case "sat":
						or.Status = "refuted"
						or.Res = r
						return
					default:
						or.Status = "undecided"
						or.Res.Status = r.Status
						or.Res.Output = r.Output
						or.Res.All = r.All
					}
				}
				if or.Status == "discharged" {
					or.Res.Status = "unsat"
				}
			}(or)
			continue
		}
		script := e.query(o, nil)
		rscript, haveRel := e.relevantQuery(o)
		wg.Add(1)
		go func(or *OblResult, script, rscript string, haveRel bool) {
			defer wg.Done()
			done := false
			if haveRel {
				t1 := timeout / 2
				if t1 < 2*time.Second {
					t1 = 2 * time.Second
				}
				or.Res = Solve(or.O.ID+"_rel", rscript, t1, false)
				if or.Res.Status == "unsat" {
					done = true
				} else if or.O.Kind == "cand" && or.Res.Status == "sat" {
					done = true // dropping a candidate on a spurious counterexample only loses precision
				}
			}
			if !done {
				or.Res = Solve(or.O.ID, script, timeout, all)
			}
			switch or.Res.Status {
			case "unsat":
				or.Status = "discharged"
			case "sat":
				or.Status = "refuted"
			default:
				or.Status = "undecided"
			}
		}(or, script, rscript, haveRel)
	}
	wg.Wait()
	return out
}

func printFnResult(r *FnResult, verbose bool) {
	if r.Err != "" {
		fmt.Printf("ERROR %s: %s\n", r.Name, r.Err)
		return
	}
	n := len(r.Results)
	fmt.Printf("%-70s obligations=%d undischarged=%d rounds=%d vacuity=%s ms=%d\n", r.Name, n, r.NotDischarged, r.HoudiniRounds, r.Vacuity, r.SolverMs)
	for _, or := range r.Results {
		if or.Status == "discharged" || or.Status == "trivial" {
			if verbose {
				fmt.Printf("    ok   %-9s %s [%s %dms]\n", or.Status, or.O.ID, or.Res.Backend, or.Res.Ms)
			}
			continue
		}
		fmt.Printf("    FAIL %-9s %s  (%s) %s:%d\n", or.Status, or.O.ID, or.O.Desc, shortPath(or.O.Pos.Filename), or.O.Pos.Line)
		if showModels && or.Status == "refuted" {
			debugModel(r.Enc, or.O)
		}
		if or.Status == "undecided" {
			fmt.Printf("         %s %v\n", firstLine(or.Res.Output), or.Res.All)
		}
	}
	if verbose || r.NotDischarged > 0 {
		if len(r.Warnings) > 0 {
			fmt.Printf("    warnings: %s\n", strings.Join(r.Warnings, "; "))
		}
		if len(r.Unmodelled) > 0 {
			fmt.Printf("    unmodelled: %s\n", strings.Join(r.Unmodelled, "; "))
		}
	}
	if verbose {
		fmt.Printf("    inlined: %s\n    trusted: %s\n", strings.Join(r.Inlined, "; "), strings.Join(r.Trusted, "; "))
	}
}

func shortPath(p string) string {
	return strings.TrimPrefix(p, "/repo/")
}

var _ = types.Typ

// seedFromInit symbolically executes the package initialiser(s) so that the
// contents of package-level tables are known at function entry. This is sound
// provided nothing else writes those variables, which is the frame obligation
// of property C19 (package-level state is read-only after init).
func (e *Encoder) seedFromInit(fn *ssa.Function, st *State) *State {
	if fn.Pkg == nil {
		return st
	}
	initFn := fn.Pkg.Func("init")
	if initFn == nil || initFn.Blocks == nil {
		return st
	}
	c := e.c
	// all module packages start uninitialised
	for _, path := range sortedStrKeys(e.w.SSAPkgs) {
		sp := e.w.SSAPkgs[path]
		if !strings.HasPrefix(path, modPath) {
			continue
		}
		if g, ok := sp.Members["init$guard"].(*ssa.Global); ok {
			a := e.globalAddr(g)
			e.store(st, a, &SVal{K: KScalar, Typ: types.Typ[types.Bool], T: c.False()})
		}
		// package-level variables start out zeroed (fields a composite literal omits stay zero)
		var names []string
		for n := range sp.Members {
			names = append(names, n)
		}
		sort.Strings(names)
		for _, n := range names {
			g, ok := sp.Members[n].(*ssa.Global)
			if !ok || n == "init$guard" {
				continue
			}
			et := g.Type().(*types.Pointer).Elem()
			if at, isArr := et.Underlying().(*types.Array); isArr && at.Len() > 64 {
				continue
			}
			func() {
				defer func() { recover() }() // types outside the modelled subset keep unknown initial contents
				e.store(st, e.globalAddr(g), e.zero(et))
			}()
		}
	}
	e.pure++
	e.initMode = true
	savedTop := e.top
	defer func() {
		e.pure--
		e.initMode = false
		e.top = savedTop
	}()
	fr := e.newFrame(initFn)
	e.inlineStack = append(e.inlineStack, initFn)
	_, out, _ := e.run(fr, nil, c.True(), st)
	e.inlineStack = e.inlineStack[:len(e.inlineStack)-1]
	e.guard = c.True()
	e.seeded = true
	return out
}

var debugTiming = os.Getenv("BMCVC_TIMING") != ""
var showModels = os.Getenv("BMCVC_MODEL") != ""

// debugModel prints the values of all scalar symbols in a refuted obligation's query.
func debugModel(e *Encoder, o *Obligation) {
	c := e.c
	as := append([]*Term{}, e.assumptions[:o.NAssume]...)
	as = append(as, o.Extra...)
	as = append(as, o.Guard, c.Not(o.Goal))
	seen := map[*Term]bool{}
	var syms []*Term
	var rec func(t *Term)
	rec = func(t *Term) {
		if seen[t] {
			return
		}
		seen[t] = true
		if t.Op == "sym" && (t.S.K == SBV || t.S.K == SBool || t.S.K == SInt || t.S.K == SRef) {
			syms = append(syms, t)
		}
		for _, a := range t.Args {
			rec(a)
		}
	}
	for _, a := range as {
		rec(a)
	}
	sort.Slice(syms, func(i, j int) bool { return syms[i].Name < syms[j].Name })
	res := Solve("dbg_"+o.ID, c.Script(as, syms, ""), 20*time.Second, false)
	vals := parseValues(res.Output, len(syms))
	if vals == nil {
		fmt.Println("      (no model)", res.Status)
		return
	}
	for i, s := range syms {
		fmt.Printf("      %s = %s\n", s.Name, vals[i].String())
	}
}

// knownDynType: interface parameters whose only implementation in the
// dependency graph is known get that dynamic type (stated assumption), so that
// the real code of the implementation is verified against instead of a model.
func (e *Encoder) knownDynType(v *SVal) {
	if v.Typ.String() == "github.com/google/gopacket.SerializeBuffer" {
		if t := e.w.lookupTypeByName("*github.com/google/gopacket.serializeBuffer"); t != nil {
			v.Dyn = t
			e.assumeFact(e.c.Eq(v.Tag, e.c.Int(int64(e.w.typeTag(t)))))
			e.assumeFact(e.c.Not(e.c.Eq(v.T, e.c.NilRef())))
			e.trusted["every gopacket.SerializeBuffer is gopacket's own *serializeBuffer (created by NewSerializeBuffer); its real code is inlined"] = true
		}
	}
}

var thoroughTier = false
var skippedSlow = 0
