package main

// Counterexample replay: model -> Go test injected with `go test -overlay`
// and run against the real code.

import (
	"encoding/json"
	"fmt"
	"go/ast"
	"go/types"
	"os"
	"os/exec"
	"path/filepath"
	"regexp"
	"strings"
	"time"
)

type replayResult struct {
	Confirmed bool
	Path      string
	Summary   string
}

const replayBytes = 96

type modelReq struct {
	term *Term
	set  func(v uint64)
}

// loopWindowInputs builds alternative inputs from loop-carried slice values recorded in the model.
func loopWindowInputs(e *Encoder, ims []*inputModel) [][]*inputModel {
	var out [][]*inputModel
	for _, w := range e.loopWindows {
		if w.bytes == nil || int(w.length) > len(w.bytes) {
			continue
		}
		var alt []*inputModel
		hit := false
		for _, im := range ims {
			if im.name == w.param && im.bytes != nil {
				c := *im
				c.bytes = append([]byte{}, w.bytes[:w.length]...)
				c.length = w.length
				alt = append(alt, &c)
				hit = true
			} else {
				alt = append(alt, im)
			}
		}
		if hit {
			out = append(out, alt)
		}
	}
	return out
}

type loopWindow struct {
	param  string
	v      *SVal
	length uint64
	bytes  []byte
}

type inputModel struct {
	plain  []byte // AES template: bytes after decryption
	iv     []byte // AES template: IV bytes as seen after the call (unchanged by decryption)
	name   string
	typ    types.Type
	scalar uint64
	length uint64
	bytes  []byte
	fields map[string]uint64 // receiver leaf fields (Go selector path -> value)
	ftypes map[string]types.Type
	arrays map[string][]byte
	// second receiver state (non-interference replays)
	fields2 map[string]uint64
	arrays2 map[string][]byte
}

func replayDir(prop string) string {
	d := filepath.Join(outDir, "replays", prop)
	os.MkdirAll(d, 0o755)
	return d
}

func replayObligation(w *World, r *FnResult, or *OblResult, prop string) replayResult {
	e := r.Enc
	o := or.O
	base := filepath.Join(replayDir(prop), sanitizeFile(o.ID))
	note := func(extra string) string {
		var sb strings.Builder
		fmt.Fprintf(&sb, "// Replay record written by bmcvc.\n// property:   %s\n// obligation: %s\n// kind:       %s\n// meaning:    %s\n// location:   %s:%d\n// solver:     %s (%s) %v\n", prop, o.ID, o.Kind, o.Desc, o.Pos.Filename, o.Pos.Line, or.Res.Status, or.Res.Backend, or.Res.All)
		if o.Expr != "" {
			fmt.Fprintf(&sb, "// clause:     %s\n", o.Expr)
		}
		sb.WriteString(extra)
		return sb.String()
	}
	fail := func(why string) replayResult {
		p := base + ".txt"
		out := or.Res.Output
		if len(out) > 4000 {
			out = out[:4000]
		}
		os.WriteFile(p, []byte(note("// result:     no failing input found: "+why+"\n//\n// solver output:\n"+commentOut(out))), 0o644)
		return replayResult{Path: p, Summary: why}
	}
	if or.Status != "refuted" {
		return fail("solver answered " + or.Status + " (no model)")
	}
	if len(e.inlineStack) != 0 {
		return fail("internal: inline stack not empty")
	}
	if ssrc, sok, swhy := sessionReplay(w, e, o); sok {
		// scripted-peer replay (retry closures and the functions around them)
		path := base + "_test.go.txt"
		outcome, log := runReplay(w, e, ssrc)
		rec := note("// replay:     scripted peer built from the solver's model (see engine/replay_session.go)\n// replay outcome: " + outcome + "\n//\n// go test output:\n" + commentOut(log) + "\n")
		os.WriteFile(path, []byte(rec+ssrc), 0o644)
		switch outcome {
		case "violated":
			return replayResult{Confirmed: true, Path: path, Summary: "real code reproduces the failure (" + firstLine(log) + ")"}
		case "holds":
			return replayResult{Path: path, Summary: "the scripted peer built from the model does not reproduce the failure on the real code"}
		}
		return replayResult{Path: path, Summary: "replay inconclusive: " + outcome}
	} else if swhy != "" {
		return fail(swhy)
	}
	ims, ok, why := extractModel(e, o)
	if !ok {
		return fail(why)
	}
	src, ok, why := genReplayTest(w, e, o, ims)
	if !ok {
		return fail(why)
	}
	path := base + "_test.go.txt"
	outcome, log := runReplay(w, e, src)
	if outcome == "holds" {
		// the failing state may be that of a later loop iteration: when a loop carries a window of an
		// input slice (x = x[k:]), start the real function on that window instead
		for _, alt := range loopWindowInputs(e, ims) {
			src2, ok2, _ := genReplayTest(w, e, o, alt)
			if !ok2 {
				continue
			}
			if oc, lg := runReplay(w, e, src2); oc == "violated" {
				ims, src, outcome, log = alt, src2, oc, lg+"\n(input taken from the loop-carried window of the model)"
				break
			}
		}
	}
	rec := note("// model inputs: " + describeInputs(ims) + "\n// replay outcome: " + outcome + "\n//\n// go test output:\n" + commentOut(log) + "\n")
	os.WriteFile(path, []byte(rec+src), 0o644)
	switch outcome {
	case "violated":
		return replayResult{Confirmed: true, Path: path, Summary: "real code reproduces the failure (" + firstLine(log) + ")"}
	case "holds":
		return replayResult{Path: path, Summary: "model does not reproduce on the real code"}
	}
	return replayResult{Path: path, Summary: "replay inconclusive: " + outcome}
}

func commentOut(s string) string {
	var sb strings.Builder
	for _, l := range strings.Split(strings.TrimRight(s, "\n"), "\n") {
		sb.WriteString("//   " + l + "\n")
	}
	return sb.String()
}

func describeInputs(ims []*inputModel) string {
	var parts []string
	for _, im := range ims {
		switch {
		case im.bytes != nil:
			parts = append(parts, fmt.Sprintf("%s=len %d % x", im.name, im.length, im.bytes))
		case im.fields != nil:
			parts = append(parts, fmt.Sprintf("%s{%d fields}", im.name, len(im.fields)))
		default:
			parts = append(parts, fmt.Sprintf("%s=%d", im.name, im.scalar))
		}
	}
	return strings.Join(parts, "; ")
}

// extractModel re-solves the obligation (preferring small inputs) and reads
// the values of the function's inputs.
func extractModel(e *Encoder, o *Obligation) ([]*inputModel, bool, string) {
	c := e.c
	var reqs []modelReq
	var ims []*inputModel
	var small []*Term
	mem := e.get(e.entry, "mem:bv8", Arr(RefS, Arr(BV64, BV8)))
	for _, in := range e.inputs {
		v := in.V
		im := &inputModel{name: in.Name, typ: v.Typ}
		ims = append(ims, im)
		switch v.K {
		case KScalar:
			if v.T.S.K == SReal {
				continue
			}
			reqs = append(reqs, modelReq{v.T, func(x uint64) { im.scalar = x }})
		case KSlice, KString:
			if sl, ok := v.Typ.Underlying().(*types.Slice); ok {
				if b, ok := sl.Elem().Underlying().(*types.Basic); !ok || b.Kind() != types.Uint8 {
					continue
				}
			}
			im.bytes = make([]byte, replayBytes)
			small = append(small, c.BVCmp("bvule", v.Len, c.BVLit(replayBytes, 64)))
			reqs = append(reqs, modelReq{v.Len, func(x uint64) { im.length = x }})
			arr := c.Select(mem, v.Base)
			if v.K == KString {
				arr = c.Select(e.get(e.entry, "mem:str", Arr(RefS, Arr(BV64, BV8))), v.Base)
			}
			for k := 0; k < replayBytes; k++ {
				k := k
				reqs = append(reqs, modelReq{c.Select(arr, c.BVBin("bvadd", v.Off, c.BVLit(uint64(k), 64))), func(x uint64) { im.bytes[k] = byte(x) }})
			}
		case KArray:
			if v.T != nil && v.T.S.E == BV8 {
				n := int(v.Typ.Underlying().(*types.Array).Len())
				im.bytes = make([]byte, n)
				im.length = uint64(n)
				for k := 0; k < n; k++ {
					k := k
					reqs = append(reqs, modelReq{c.Select(v.T, c.BVLit(uint64(k), 64)), func(x uint64) { im.bytes[k] = byte(x) }})
				}
			}
		case KPtr:
			pt, ok := v.Typ.Underlying().(*types.Pointer)
			if !ok {
				continue
			}
			if _, ok := pt.Elem().Underlying().(*types.Struct); !ok {
				continue
			}
			im.fields = map[string]uint64{}
			im.ftypes = map[string]types.Type{}
			im.arrays = map[string][]byte{}
			im.fields2 = map[string]uint64{}
			im.arrays2 = map[string][]byte{}
			e.leafFieldReqs(im, v.T, pt.Elem(), "", &reqs, 0, o.NIMap)
		}
	}
	// AES decode template: the decrypted bytes are an uninterpreted function of the
	// ciphertext; read them from the model so that the replay can encrypt them.
	var aesPlain, aesIV []byte
	if isAESDecode(e) && e.cryptOut != nil {
		aesIV = make([]byte, 16)
		for k := 0; k < 16; k++ {
			k := k
			reqs = append(reqs, modelReq{c.Select(e.cryptOut, c.BVBin("bvadd", c.BVBin("bvsub", e.cryptOff, c.BVLit(16, 64)), c.BVLit(uint64(k), 64))), func(x uint64) { aesIV[k] = byte(x) }})
		}
	}
	if isAESDecode(e) {
		for _, g := range e.cbc {
			if g.dec && g.out != nil {
				aesPlain = make([]byte, replayBytes)
				for k := 0; k < replayBytes; k++ {
					k := k
					var t *Term
					if e.cryptOut != nil {
						t = c.Select(e.cryptOut, c.BVBin("bvadd", e.cryptOff, c.BVLit(uint64(k), 64)))
					} else {
						t = c.Select(g.out, c.BVLit(uint64(k), 64))
					}
					reqs = append(reqs, modelReq{t, func(x uint64) { aesPlain[k] = byte(x) }})
				}
			}
		}
	}
	// loop-carried windows of input slices
	e.loopWindows = nil
	if e.topFrame != nil {
		for _, li := range e.topFrame.loops {
			for _, p := range li.phis {
				hv := li.phiVals[p]
				if hv == nil || hv.K != KSlice || p.Comment == "" {
					continue
				}
				isParam := false
				for _, in := range e.inputs {
					if in.Name == p.Comment && in.V.K == KSlice {
						isParam = true
					}
				}
				if !isParam {
					continue
				}
				lw := &loopWindow{param: p.Comment, v: hv, bytes: make([]byte, replayBytes)}
				e.loopWindows = append(e.loopWindows, lw)
				reqs = append(reqs, modelReq{hv.Len, func(x uint64) { lw.length = x }})
				st := li.stH
				m8 := e.get(st, "mem:bv8", Arr(RefS, Arr(BV64, BV8)))
				arr := c.Select(m8, hv.Base)
				for k := 0; k < replayBytes; k++ {
					k := k
					reqs = append(reqs, modelReq{c.Select(arr, c.BVBin("bvadd", hv.Off, c.BVLit(uint64(k), 64))), func(x uint64) { lw.bytes[k] = byte(x) }})
				}
				small = append(small, c.BVCmp("bvule", hv.Len, c.BVLit(replayBytes, 64)))
			}
		}
	}
	var terms []*Term
	for _, r := range reqs {
		terms = append(terms, r.term)
	}
	try := func(extra []*Term) (SolveResult, bool) {
		as := append([]*Term{}, e.assumptions[:o.NAssume]...)
		as = append(as, o.Extra...)
		as = append(as, o.Guard, c.Not(o.Goal))
		as = append(as, extra...)
		as = append(as, e.boundedFoldFacts(as, replayBytes+1)...)
		res := Solve("model_"+o.ID, c.Script(as, terms, ""), 20*time.Second, false)
		return res, res.Status == "sat"
	}
	res, ok := try(small)
	if !ok {
		res, ok = try(nil)
		if !ok {
			return nil, false, "could not re-derive a model (" + res.Status + ")"
		}
	}
	vals := parseValues(res.Output, len(terms))
	if vals == nil {
		return nil, false, "could not parse the solver's model"
	}
	for i, r := range reqs {
		if u, ok := sexpToUint(vals[i]); ok {
			r.set(u)
		}
	}
	if aesPlain != nil {
		for _, im := range ims {
			if im.name == "data" {
				im.plain = aesPlain
				im.iv = aesIV
			}
		}
	}
	for _, im := range ims {
		if im.bytes != nil && im.typ != nil {
			if _, isArr := im.typ.Underlying().(*types.Array); !isArr {
				if im.length > replayBytes {
					return nil, false, fmt.Sprintf("model needs an input of %d bytes (replay cap %d)", im.length, replayBytes)
				}
				im.bytes = im.bytes[:im.length]
			}
		}
	}
	return ims, true, ""
}

func (e *Encoder) leafFieldReqs(im *inputModel, ref *Term, t types.Type, path string, reqs *[]modelReq, depth int, ni map[*Term]*Term) {
	if depth > 4 {
		return
	}
	c := e.c
	st := t.Underlying().(*types.Struct)
	for i := 0; i < st.NumFields(); i++ {
		f := st.Field(i)
		p := path + "." + f.Name()
		a := e.fieldAddr(ref, t, i)
		switch kindOf(f.Type()) {
		case KScalar:
			s := scalarSort(f.Type())
			if s.K == SReal {
				continue
			}
			cls := a.Prefix
			if _, used := e.entry.m[cls]; !used {
				continue // the function never looks at this field
			}
			arr := e.get(e.entry, cls, Arr(RefS, s))
			im.ftypes[p] = f.Type()
			pp := p
			*reqs = append(*reqs, modelReq{c.Select(arr, a.Idx), func(x uint64) { im.fields[pp] = x }})
			if ni != nil {
				*reqs = append(*reqs, modelReq{c.Subst(c.Select(arr, a.Idx), ni), func(x uint64) { im.fields2[pp] = x }})
			}
		case KStruct:
			e.leafFieldReqs(im, a.Ref, f.Type(), p, reqs, depth+1, ni)
		case KArray:
			at := f.Type().Underlying().(*types.Array)
			if b, ok := at.Elem().Underlying().(*types.Basic); ok && b.Kind() == types.Uint8 && at.Len() <= 64 {
				if _, used := e.entry.m["mem:bv8"]; !used {
					continue
				}
				mem := e.get(e.entry, "mem:bv8", Arr(RefS, Arr(BV64, BV8)))
				buf := make([]byte, at.Len())
				im.arrays[p] = buf
				buf2 := make([]byte, at.Len())
				if ni != nil {
					im.arrays2[p] = buf2
				}
				for k := int64(0); k < at.Len(); k++ {
					k := k
					el := c.Select(c.Select(mem, a.Ref), c.BVLit(uint64(k), 64))
					*reqs = append(*reqs, modelReq{el, func(x uint64) { buf[k] = byte(x) }})
					if ni != nil {
						*reqs = append(*reqs, modelReq{c.Subst(el, ni), func(x uint64) { buf2[k] = byte(x) }})
					}
				}
			}
		}
	}
}

var forallRe = regexp.MustCompile(`\b(forall|exists)\(`)

// goClause rewrites a contract clause into executable Go (short-circuit
// implication, loops for quantifiers, hoisted old() values).
func goClause(text string, resNames []string) (expr string, olds []string) {
	s := rewriteImplies(text)
	// result names
	s = resultRe.ReplaceAllStringFunc(s, func(m string) string {
		sm := resultRe.FindStringSubmatch(m)
		idx := 0
		if sm[2] != "" {
			fmt.Sscanf(sm[2], "%d", &idx)
		}
		if idx < len(resNames) {
			return sm[1] + resNames[idx]
		}
		return m
	})
	s = rewriteCalls(s, &olds)
	return s, olds
}

// rewriteCalls handles implies/ite/forall/exists/old recursively.
func rewriteCalls(s string, olds *[]string) string {
	for _, name := range []string{"implies", "ite", "forall", "exists", "old"} {
		for {
			k := findCall(s, name)
			if k < 0 {
				break
			}
			open := k + len(name)
			cl := matchParen(s, open)
			if cl < 0 {
				return s
			}
			args := splitTop(s[open+1:cl], ',')
			for i := range args {
				args[i] = strings.TrimSpace(args[i])
			}
			var rep string
			switch name {
			case "implies":
				rep = "(!(" + args[0] + ") || (" + strings.Join(args[1:], ",") + "))"
			case "ite":
				rep = "func() (r_ interface{}) { if " + args[0] + " { return " + args[1] + " }; return " + args[2] + " }()"
				// typed ite cannot be expressed without the type; use generic helper with closures
				T := "any"
				if len(iteTypeQueue) > 0 {
					T, iteTypeQueue = iteTypeQueue[0], iteTypeQueue[1:]
				}
				rep = "iteLazy(" + args[0] + ", func() " + T + " { return " + args[1] + " }, func() " + T + " { return " + args[2] + " })"
			case "forall":
				rep = "func() bool { for " + args[0] + " := (" + args[1] + "); " + args[0] + " < (" + args[2] + "); " + args[0] + "++ { if !(" + strings.Join(args[3:], ",") + ") { return false } }; return true }()"
			case "exists":
				rep = "func() bool { for " + args[0] + " := (" + args[1] + "); " + args[0] + " < (" + args[2] + "); " + args[0] + "++ { if (" + strings.Join(args[3:], ",") + ") { return true } }; return false }()"
			case "old":
				v := fmt.Sprintf("old%d_", len(*olds))
				*olds = append(*olds, strings.Join(args, ","))
				rep = v
			}
			s = s[:k] + rep + s[cl+1:]
		}
	}
	return s
}

func findCall(s, name string) int {
	from := 0
	for {
		k := strings.Index(s[from:], name+"(")
		if k < 0 {
			return -1
		}
		k += from
		if k == 0 || !(isIdent(s[k-1]) || s[k-1] == '.') {
			return k
		}
		from = k + 1
	}
}

func isIdent(b byte) bool {
	return b == '_' || b >= 'a' && b <= 'z' || b >= 'A' && b <= 'Z' || b >= '0' && b <= '9'
}

func matchParen(s string, open int) int {
	depth := 0
	for i := open; i < len(s); i++ {
		switch s[i] {
		case '(', '[', '{':
			depth++
		case ')', ']', '}':
			depth--
			if depth == 0 {
				return i
			}
		}
	}
	return -1
}

func goLit(t types.Type, v uint64, q types.Qualifier) string {
	ts := types.TypeString(t, q)
	if b, ok := t.Underlying().(*types.Basic); ok {
		if b.Info()&types.IsBoolean != 0 {
			if v != 0 {
				return ts + "(true)"
			}
			return ts + "(false)"
		}
		if b.Info()&types.IsUnsigned != 0 {
			return fmt.Sprintf("%s(%d)", ts, v)
		}
		w := intWidth(b)
		return fmt.Sprintf("%s(%d)", ts, signExt(v, w))
	}
	return fmt.Sprintf("%s(%d)", ts, v)
}

func bytesLit(b []byte) string {
	var sb strings.Builder
	sb.WriteString("[]byte{")
	for i, x := range b {
		if i > 0 {
			sb.WriteString(", ")
		}
		fmt.Fprintf(&sb, "0x%02x", x)
	}
	sb.WriteString("}")
	return sb.String()
}

// genReplayTest writes an in-package test that calls the real function on the
// model's inputs and re-evaluates the failed obligation concretely.
func genReplayTest(w *World, e *Encoder, o *Obligation, ims []*inputModel) (string, bool, string) {
	fn := e.top
	if fn.Parent() != nil {
		return "", false, "closures are replayed only through their scripted-transport templates"
	}
	if fn.Pkg == nil {
		return "", false, "no package"
	}
	pkg := fn.Pkg.Pkg
	q := func(p *types.Package) string {
		if p == pkg {
			return ""
		}
		return p.Name()
	}
	imports := map[string]string{"testing": "testing", "fmt": "fmt", "strings": "strings", "os": "os"}
	noteImports := func(t types.Type) {
		types.TypeString(t, func(p *types.Package) string {
			if p != pkg {
				imports[p.Path()] = p.Name()
			}
			return p.Name()
		})
	}
	var pre strings.Builder
	var callArgs []string
	recvExpr := ""
	sig := fn.Signature
	for i, im := range ims {
		p := fn.Params[i]
		name := "in_" + p.Name()
		isRecv := sig.Recv() != nil && i == 0
		t := p.Type()
		noteImports(t)
		switch {
		case isAESDecode(e) && isRecv:
			fmt.Fprintf(&pre, "\t%s, _ := NewAES128CBC([16]byte{1, 2, 3, 4, 5, 6, 7, 8, 9, 10, 11, 12, 13, 14, 15, 16})\n", name)
		case isAESDecode(e) && im.plain != nil && len(im.bytes) >= 32 && len(im.bytes)%16 == 0:
			// build the ciphertext whose decryption under the known key is the model's plaintext
			imports["crypto/cipher"] = "cipher"
			n := len(im.bytes)
			fmt.Fprintf(&pre, "\t%s := append(make([]byte, 0, %d), %s...)\n", name, n, bytesLit(im.bytes))
			if im.iv != nil {
				fmt.Fprintf(&pre, "\tcopy(%s[:16], %s)\n", name, bytesLit(im.iv))
			}
			fmt.Fprintf(&pre, "\tplain_ := %s\n", bytesLit(im.plain[:n-16]))
			fmt.Fprintf(&pre, "\tcipher.NewCBCEncrypter(in_a.cipher, %s[:16]).CryptBlocks(%s[16:], plain_)\n", name, name)
		case im.fields != nil:
			pt := t.Underlying().(*types.Pointer).Elem()
			fmt.Fprintf(&pre, "\t%s := new(%s)\n", name, types.TypeString(pt, q))
			for path, v := range im.fields {
				noteImports(im.ftypes[path])
				fmt.Fprintf(&pre, "\t%s%s = %s\n", name, path, goLit(im.ftypes[path], v, q))
			}
			for path, b := range im.arrays {
				fmt.Fprintf(&pre, "\tcopy(%s%s[:], %s)\n", name, path, bytesLit(b))
			}
		case im.bytes != nil && kindOf(t) == KSlice:
			// exact capacity so that an over-read is a panic
			fmt.Fprintf(&pre, "\t%s := append(make([]byte, 0, %d), %s...)\n", name, len(im.bytes), bytesLit(im.bytes))
		case im.bytes != nil && kindOf(t) == KString:
			fmt.Fprintf(&pre, "\t%s := %s(%s)\n", name, types.TypeString(t, q), bytesLit(im.bytes))
		case im.bytes != nil && kindOf(t) == KArray:
			fmt.Fprintf(&pre, "\tvar %s %s\n\tcopy(%s[:], %s)\n", name, types.TypeString(t, q), name, bytesLit(im.bytes))
		case kindOf(t) == KScalar:
			if scalarSort(t).K == SReal {
				return "", false, "floating-point input"
			}
			fmt.Fprintf(&pre, "\t%s := %s\n", name, goLit(t, im.scalar, q))
		case kindOf(t) == KIface:
			if strings.HasSuffix(t.String(), "gopacket.DecodeFeedback") {
				imports["github.com/google/gopacket"] = "gopacket"
				fmt.Fprintf(&pre, "\tvar %s %s = gopacket.NilDecodeFeedback\n", name, types.TypeString(t, q))
			} else {
				return "", false, "interface-typed input " + p.Name() + " has no replay template"
			}
		default:
			return "", false, "input " + p.Name() + " of type " + t.String() + " has no replay template"
		}
		if isRecv {
			recvExpr = name
		} else {
			callArgs = append(callArgs, name)
		}
	}
	call := fn.Name() + "(" + strings.Join(callArgs, ", ") + ")"
	if recvExpr != "" {
		call = recvExpr + "." + call
	}
	var resNames []string
	for i := 0; i < sig.Results().Len(); i++ {
		resNames = append(resNames, fmt.Sprintf("result%d_", i))
	}
	var body strings.Builder
	// parameter names as the contract uses them
	for i := range ims {
		p := fn.Params[i]
		if p.Name() != "_" && p.Name() != "" {
			fmt.Fprintf(&body, "\t%s := in_%s\n\t_ = %s\n", p.Name(), p.Name(), p.Name())
		}
	}
	if o.Kind == "noninterference" {
		return genNIReplay(w, e, o, ims, pkg, q, imports, noteImports)
	}
	checkExpr := ""
	var olds []string
	if o.Kind == "ensures" && o.Expr != "" {
		iteTypeQueue = iteTypes(o.Clause, q, noteImports)
		checkExpr, olds = goClause(o.Expr, resNames)
		iteTypeQueue = nil
		for k, ox := range olds {
			fmt.Fprintf(&body, "\told%d_ := %s\n", k, ox)
		}
	} else if !safetyKind(o.Kind) {
		return "", false, "obligations of kind " + o.Kind + " have no concrete replay"
	}
	lhs := ""
	if len(resNames) > 0 {
		lhs = strings.Join(resNames, ", ") + " := "
	}
	fmt.Fprintf(&body, "\t%s%s\n", lhs, call)
	for _, rn := range resNames {
		fmt.Fprintf(&body, "\t_ = %s\n", rn)
	}
	if checkExpr != "" {
		fmt.Fprintf(&body, "\tif !(%s) {\n\t\tfmt.Println(\"VERIF-REPLAY: violated: the clause evaluates to false on the real code\")\n\t\treturn\n\t}\n", checkExpr)
	}
	fmt.Fprintf(&body, "\tfmt.Println(\"VERIF-REPLAY: holds\")\n")
	var src strings.Builder
	fmt.Fprintf(&src, "//go:build verif\n\npackage %s\n\nimport (\n", pkg.Name())
	for path, name := range imports {
		fmt.Fprintf(&src, "\t%s %q\n", name, path)
	}
	src.WriteString(")\n\nvar _ = strings.Contains\nvar _ = os.Exit\n\n")
	src.WriteString("func iteLazy[T any](c bool, a, b func() T) T {\n\tif c {\n\t\treturn a()\n\t}\n\treturn b()\n}\n\n")
	src.WriteString("func TestVerifReplay(t *testing.T) {\n")
	src.WriteString("\tdefer func() {\n\t\tif r := recover(); r != nil {\n\t\t\tfmt.Printf(\"VERIF-REPLAY: panic: %v\\n\", r)\n\t\t}\n\t}()\n")
	src.WriteString(pre.String())
	src.WriteString(body.String())
	src.WriteString("}\n")
	return src.String(), true, ""
}

// runReplay executes the generated test against the real code.
func runReplay(w *World, e *Encoder, src string) (outcome, log string) {
	return runReplayIn(w, e.top.Pkg.Pkg.Path(), src)
}

func runReplayIn(w *World, pkgPath string, src string) (outcome, log string) {
	dir := filepath.Join(workDir, fmt.Sprintf("replay%d", time.Now().UnixNano()))
	os.MkdirAll(dir, 0o755)
	defer os.RemoveAll(dir)
	pkgDir := filepath.Join(w.RepoDir, relPkgDir(pkgPath))
	testFile := filepath.Join(dir, "zz_verif_replay_test.go")
	os.WriteFile(testFile, []byte(src), 0o644)
	ov := map[string]map[string]string{"Replace": {filepath.Join(pkgDir, "zz_verif_replay_test.go"): testFile}}
	// contract + prelude files of every package with contracts
	filepath.Walk(w.ContractsDir, func(p string, fi os.FileInfo, err error) error {
		if err != nil || fi.IsDir() || !strings.HasSuffix(p, "zz_contracts_verif.go") {
			return nil
		}
		rel, _ := filepath.Rel(w.ContractsDir, p)
		dst := filepath.Join(w.RepoDir, rel)
		ov["Replace"][dst] = p
		b, _ := os.ReadFile(p)
		if m := regexp.MustCompile(`(?m)^package (\w+)`).FindSubmatch(b); m != nil {
			pf := filepath.Join(dir, "prelude_"+sanitizeFile(rel)+".go")
			os.WriteFile(pf, []byte(fmt.Sprintf(preludeSrc, string(m[1]))), 0o644)
			ov["Replace"][filepath.Join(filepath.Dir(dst), "zz_prelude_verif.go")] = pf
		}
		return nil
	})
	ovb, _ := json.Marshal(ov)
	ovFile := filepath.Join(dir, "overlay.json")
	os.WriteFile(ovFile, ovb, 0o644)
	cmd := exec.Command("go", "test", "-overlay", ovFile, "-tags", "verif", "-vet=off", "-timeout", "60s", "-count=1", "-run", "^TestVerifReplay$", "-v", ".")
	cmd.Dir = pkgDir
	cmd.Env = append(os.Environ(), "GOFLAGS=-mod=mod", "GOPROXY=off", "GOSUMDB=off", "GOTOOLCHAIN=local")
	out, _ := cmd.CombinedOutput()
	log = string(out)
	var keep []string
	for _, l := range strings.Split(log, "\n") {
		if strings.Contains(l, "VERIF-REPLAY") || strings.Contains(l, "panic") || strings.Contains(l, "FAIL") || strings.Contains(l, "timed out") || strings.Contains(l, "error") {
			keep = append(keep, l)
		}
	}
	short := strings.Join(keep, "\n")
	switch {
	case strings.Contains(log, "VERIF-REPLAY: panic"):
		return "violated", short
	case strings.Contains(log, "VERIF-REPLAY: violated"):
		return "violated", short
	case strings.Contains(log, "test timed out"):
		return "violated", short + "\n(the real function did not terminate within 60s)"
	case strings.Contains(log, "VERIF-REPLAY: holds"):
		return "holds", short
	case strings.Contains(log, "VERIF-REPLAY: skipped"):
		return "skipped", short
	}
	if len(log) > 1500 {
		log = log[:1500]
	}
	return "build-or-run-failure", log
}

// boundedFoldFacts pins every uninterpreted fold application down completely
// for ranges up to n elements, so that a model found for replay is not an
// artefact of the one-step unfolding used in proofs.
func (e *Encoder) boundedFoldFacts(as []*Term, n int) []*Term {
	c := e.c
	seen := map[*Term]bool{}
	var apps []*Term
	var rec func(x *Term)
	rec = func(x *Term) {
		if seen[x] {
			return
		}
		seen[x] = true
		if x.Op == "app" && x.Name == "bsum8" && !x.hb {
			apps = append(apps, x)
		}
		for _, a := range x.Args {
			rec(a)
		}
	}
	for _, a := range as {
		rec(a)
	}
	var out []*Term
	for _, t := range apps {
		arr, from, to := t.Args[0], t.Args[1], t.Args[2]
		d := c.BVBin("bvsub", to, from)
		sum := c.BVLit(0, 8)
		for k := 0; k <= n; k++ {
			out = append(out, c.Implies(c.Eq(d, c.BVLit(uint64(k), 64)), c.Eq(t, sum)))
			sum = c.BVBin("bvadd", sum, c.Select(arr, c.BVBin("bvadd", from, c.BVLit(uint64(k), 64))))
		}
	}
	return out
}

func isAESDecode(e *Encoder) bool {
	return e.top != nil && e.top.Name() == "DecodeFromBytes" && strings.Contains(e.top.String(), "AES128CBC")
}

// genNIReplay: decode the same bytes into the receiver in the two prior states of the
// model and into a fresh one; the named field must come out the same.
func genNIReplay(w *World, e *Encoder, o *Obligation, ims []*inputModel, pkg *types.Package, q types.Qualifier, imports map[string]string, noteImports func(types.Type)) (string, bool, string) {
	fn := e.top
	imports["reflect"] = "reflect"
	var body strings.Builder
	recv := ims[0]
	if recv.fields == nil {
		return "", false, "receiver is not a struct pointer"
	}
	pt := fn.Params[0].Type().Underlying().(*types.Pointer).Elem()
	mk := func(name string, fields map[string]uint64, arrays map[string][]byte) {
		fmt.Fprintf(&body, "\t%s := new(%s)\n", name, types.TypeString(pt, q))
		for path, v := range fields {
			noteImports(recv.ftypes[path])
			fmt.Fprintf(&body, "\t%s%s = %s\n", name, path, goLit(recv.ftypes[path], v, q))
		}
		for path, b := range arrays {
			fmt.Fprintf(&body, "\tcopy(%s%s[:], %s)\n", name, path, bytesLit(b))
		}
	}
	mk("r1", recv.fields, recv.arrays)
	mk("r2", recv.fields2, recv.arrays2)
	mk("r0", nil, nil)
	var argsFor func(suffix string) ([]string, bool)
	argsFor = func(suffix string) ([]string, bool) {
		var out []string
		for i, im := range ims[1:] {
			p := fn.Params[i+1]
			t := p.Type()
			name := fmt.Sprintf("a%d_%s", i, suffix)
			switch {
			case im.bytes != nil && kindOf(t) == KSlice:
				fmt.Fprintf(&body, "\t%s := append(make([]byte, 0, %d), %s...)\n", name, len(im.bytes), bytesLit(im.bytes))
			case kindOf(t) == KScalar && scalarSort(t).K != SReal:
				fmt.Fprintf(&body, "\t%s := %s\n", name, goLit(t, im.scalar, q))
			case kindOf(t) == KIface && strings.HasSuffix(t.String(), "gopacket.DecodeFeedback"):
				imports["github.com/google/gopacket"] = "gopacket"
				fmt.Fprintf(&body, "\tvar %s %s = gopacket.NilDecodeFeedback\n", name, types.TypeString(t, q))
			default:
				return nil, false
			}
			out = append(out, name)
		}
		return out, true
	}
	for _, r := range []string{"r1", "r2", "r0"} {
		args, ok := argsFor(r)
		if !ok {
			return "", false, "an input has no replay template"
		}
		fmt.Fprintf(&body, "\terr_%s := %s.%s(%s)\n", r, r, fn.Name(), strings.Join(args, ", "))
	}
	if o.Expr == "<accept>" {
		body.WriteString("\tif (err_r1 == nil) != (err_r0 == nil) || (err_r2 == nil) != (err_r0 == nil) {\n\t\tfmt.Println(\"VERIF-REPLAY: violated: acceptance depends on the earlier state of the value\")\n\t\treturn\n\t}\n")
	} else {
		fmt.Fprintf(&body, "\tif err_r0 == nil && err_r1 == nil && err_r2 == nil {\n")
		fmt.Fprintf(&body, "\t\tif !sameValue(r1%s, r0%s) || !sameValue(r2%s, r0%s) {\n", o.Expr, o.Expr, o.Expr, o.Expr)
		fmt.Fprintf(&body, "\t\t\tfmt.Printf(\"VERIF-REPLAY: violated: field %s differs after decoding the same bytes: reused=%%v / %%v fresh=%%v\\n\", r1%s, r2%s, r0%s)\n\t\t\treturn\n\t\t}\n\t}\n", o.Expr, o.Expr, o.Expr, o.Expr)
	}
	// second strategy: reach the prior state the way a user does, by decoding an earlier input
	// into the same value (candidate earlier inputs are derived from the later one)
	var later []byte
	simple := len(ims) == 3
	for _, im := range ims[1:] {
		if im.bytes != nil {
			later = im.bytes
		}
	}
	if simple && later != nil && len(fn.Params) == 3 && kindOf(fn.Params[1].Type()) == KSlice {
		imports["github.com/google/gopacket"] = "gopacket"
		fmt.Fprintf(&body, "\tlater := %s\n", bytesLit(later))
		body.WriteString("\tvar cands [][]byte\n")
		body.WriteString("\tfor _, fill := range []byte{0xff, 0x01, 0x02, 0x00, 0x55, 0x80} {\n\t\tfor L := 0; L <= 72; L++ {\n\t\t\tc := make([]byte, L)\n\t\t\tfor i := range c {\n\t\t\t\tc[i] = fill\n\t\t\t}\n\t\t\tcands = append(cands, c)\n\t\t}\n\t}\n")
		body.WriteString("\tfor i := 0; i < len(later) && i < 48; i++ {\n\t\tfor _, v := range []byte{0x00, 0x01, 0x02, 0x03, 0x06, 0x40, 0x80, 0xc0, 0xff} {\n\t\t\tfor _, extra := range []int{0, 4, 40} {\n\t\t\t\tc := append(append([]byte{}, later...), make([]byte, extra)...)\n\t\t\t\tfor j := len(later); j < len(c); j++ {\n\t\t\t\t\tc[j] = 0x11\n\t\t\t\t}\n\t\t\t\tc[i] = v\n\t\t\t\tcands = append(cands, c)\n\t\t\t}\n\t\t}\n\t}\n")
		fmt.Fprintf(&body, "\tfor _, earlier := range cands {\n\t\tr := new(%s)\n\t\tif func() (bad bool) {\n\t\t\tdefer func() {\n\t\t\t\tif recover() != nil {\n\t\t\t\t\tbad = true\n\t\t\t\t}\n\t\t\t}()\n\t\t\treturn r.%s(append([]byte{}, earlier...), gopacket.NilDecodeFeedback) != nil\n\t\t}() {\n\t\t\tcontinue\n\t\t}\n", types.TypeString(pt, q), fn.Name())
		fmt.Fprintf(&body, "\t\tf := new(%s)\n\t\te1 := r.%s(append([]byte{}, later...), gopacket.NilDecodeFeedback)\n\t\te0 := f.%s(append([]byte{}, later...), gopacket.NilDecodeFeedback)\n", types.TypeString(pt, q), fn.Name(), fn.Name())
		if o.Expr == "<accept>" {
			body.WriteString("\t\tif (e1 == nil) != (e0 == nil) {\n\t\t\tfmt.Printf(\"VERIF-REPLAY: violated: acceptance depends on an earlier decode of % x\\n\", earlier)\n\t\t\treturn\n\t\t}\n\t}\n")
		} else {
			fmt.Fprintf(&body, "\t\tif e1 == nil && e0 == nil && !sameValue(r%s, f%s) {\n\t\t\tfmt.Printf(\"VERIF-REPLAY: violated: field %s after decoding % %x differs between a value that earlier decoded %% x (%%v) and a fresh one (%%v)\\n\", later, earlier, r%s, f%s)\n\t\t\treturn\n\t\t}\n\t}\n", o.Expr, o.Expr, o.Expr, o.Expr, o.Expr)
		}
	}
	body.WriteString("\tfmt.Println(\"VERIF-REPLAY: holds\")\n")
	var src strings.Builder
	fmt.Fprintf(&src, "//go:build verif\n\npackage %s\n\nimport (\n", pkg.Name())
	for path, name := range imports {
		fmt.Fprintf(&src, "\t%s %q\n", name, path)
	}
	src.WriteString(")\n\nvar _ = strings.Contains\nvar _ = os.Exit\n\n")
	src.WriteString("func sameValue(a, b any) bool {\n\tva, vb := reflect.ValueOf(a), reflect.ValueOf(b)\n\tif va.Kind() == reflect.Slice && vb.Kind() == reflect.Slice && va.Len() == 0 && vb.Len() == 0 {\n\t\treturn true\n\t}\n\treturn reflect.DeepEqual(a, b)\n}\n\n")
	src.WriteString("func TestVerifReplay(t *testing.T) {\n")
	src.WriteString("\tdefer func() {\n\t\tif r := recover(); r != nil {\n\t\t\tfmt.Printf(\"VERIF-REPLAY: panic: %v\\n\", r)\n\t\t}\n\t}()\n")
	src.WriteString(body.String())
	src.WriteString("}\n")
	return src.String(), true, ""
}

// iteTypeQueue: the static types of the ite(...) calls of the clause being rewritten, in source order
// (the textual rewriting in rewriteCalls meets them in the same order).
var iteTypeQueue []string

func iteTypes(cl *Clause, q types.Qualifier, note func(types.Type)) []string {
	if cl == nil || cl.Expr == nil || cl.Info == nil {
		return nil
	}
	var out []string
	ast.Inspect(cl.Expr, func(n ast.Node) bool {
		call, ok := n.(*ast.CallExpr)
		if !ok {
			return true
		}
		if id, ok := call.Fun.(*ast.Ident); ok && id.Name == "ite" && len(call.Args) == 3 {
			t := cl.Info.TypeOf(call)
			if t == nil {
				out = append(out, "any")
				return true
			}
			if b, ok := t.(*types.Basic); ok && b.Info()&types.IsUntyped != 0 {
				t = types.Default(t)
			}
			note(t)
			out = append(out, types.TypeString(t, q))
		}
		return true
	})
	return out
}
