package main

// Property-level driver: selects the functions under contract for a
// property, verifies them, applies the lock / known-findings protocol,
// replays counterexamples and writes the evidence file.

import (
	"encoding/json"
	"fmt"
	"os"
	"path/filepath"
	"sort"
	"strconv"
	"strings"
	"sync"
	"time"

	"golang.org/x/tools/go/ssa"
)

type KnownFinding struct {
	Property   string `json:"property"`
	Obligation string `json:"obligation"`
	Region     string `json:"region"`
	What       string `json:"what"`
}

type KnownFile struct {
	Findings []KnownFinding `json:"findings"`
	Fixed    []string       `json:"fixed"`
}

type LockFile struct {
	// property -> obligation ids discharged on the reference tree
	Discharged map[string][]string `json:"discharged"`
}

type Evidence struct {
	PropertyID  string                 `json:"property_id"`
	Tier        string                 `json:"tier"`
	Seed        int                    `json:"seed"`
	Level       string                 `json:"level"`
	Coverage    map[string]interface{} `json:"coverage"`
	Assumptions []string               `json:"assumptions"`
	WallS       float64                `json:"wall_s"`
	Violations  int                    `json:"violations"`
}

var verifDir = "/verif"

// outDir: where evidence and replay records go (the selftest runs several checks at once against
// scratch copies of the repository and gives each its own).
var outDir = "/verif"
var writeLock = false

func oblProps(o *Obligation) []string { return o.Props }

func safetyKind(k string) bool {
	switch k {
	case "index", "slice", "nil", "div", "shift", "makeslice", "panic", "typeassert", "variant", "floatexact":
		return true
	}
	return false
}

// belongs reports whether an obligation counts towards a property.
func belongs(o *Obligation, ct *Contract, prop string) bool {
	has := func(ps []string, p string) bool {
		for _, x := range ps {
			if x == p {
				return true
			}
		}
		return false
	}
	if safetyKind(o.Kind) {
		var fp []string
		if ct != nil {
			fp = ct.Props
		}
		if o.Kind == "variant" && !has(fp, "C05") {
			// termination is part of C05 (received bytes cannot hang a decoder) and C16 (enumerations
			// terminate); for other properties a loop's variant is not an obligation (C13 bounds
			// blocking calls by the context, not by a loop measure)
			return prop == "C16" && has(fp, prop)
		}
		if has(fp, "C05") {
			// a decoder that panics or over-reads also fails to "reject with an error" (C07)
			// ... and, for the session-layer decoders, fails to treat the datagram "as if no valid
			// response had arrived" (C04)
			return prop == "C05" || (prop == "C07" && has(fp, "C07")) || (prop == "C04" && has(fp, "C04"))
		}
		return has(fp, prop)
	}
	if prop == "C08" && ct != nil && has(ct.Props, "C08") {
		// the round-trip lemmas are proved from the serialiser's and the decoder's contracts: every
		// clause of a function that lists C08 is part of what C08 rests on
		return true
	}
	return has(o.Props, prop)
}

func runCheck(repo, contracts string, args []string, tier string, timeout time.Duration, verbose bool) int {
	t0 := time.Now()
	if len(args) < 1 {
		fmt.Fprintln(os.Stderr, "usage: bmcvc check [flags] <property>")
		return 2
	}
	prop := args[0]
	seed := 0
	if s := os.Getenv("VERIF_SEED"); s != "" {
		seed, _ = strconv.Atoi(s)
	}
	if t := os.Getenv("VERIF_TIER"); t != "" && tier == "" {
		tier = t
	}
	thorough := tier == "thorough"
	thoroughTier = thorough
	if thorough && timeout < 60*time.Second {
		timeout = 60 * time.Second
	}
	w, err := loadWorld(repo, contracts)
	if err != nil {
		fmt.Fprintln(os.Stderr, "engine fault (loader):", err)
		return 2
	}
	var known KnownFile
	if b, err := os.ReadFile(filepath.Join(verifDir, "known_findings.json")); err == nil {
		if err := json.Unmarshal(b, &known); err != nil {
			fmt.Fprintln(os.Stderr, "engine fault: known_findings.json:", err)
			return 2
		}
	}
	var lock LockFile
	if b, err := os.ReadFile(filepath.Join(verifDir, "obligations.lock.json")); err == nil {
		json.Unmarshal(b, &lock)
	}
	locked := map[string]bool{}
	for _, id := range lock.Discharged[prop] {
		locked[id] = true
	}
	// functions under contract for this property
	var fns []*ssa.Function
	for fn, ct := range w.Contracts {
		if ct.Nocheck || ct.Mode == "lemma" {
			continue
		}
		for _, p := range ct.Props {
			if p == prop {
				fns = append(fns, fn)
			}
		}
	}
	sort.Slice(fns, func(i, j int) bool { return fns[i].String() < fns[j].String() })
	if len(fns) == 0 && specialChecks[prop] == nil {
		fmt.Fprintf(os.Stderr, "engine fault: no function under contract for %s\n", prop)
		return 2
	}
	results := make([]*FnResult, len(fns))
	var wg sync.WaitGroup
	sem := make(chan struct{}, 8)
	for i, fn := range fns {
		wg.Add(1)
		go func(i int, fn *ssa.Function) {
			defer wg.Done()
			sem <- struct{}{}
			defer func() { <-sem }()
			results[i] = verifyFunction(w, fn, timeout, thorough && os.Getenv("BMCVC_CROSSCHECK") != "")
		}(i, fn)
	}
	wg.Wait()

	ev := &Evidence{PropertyID: prop, Tier: tier, Seed: seed, Level: "proof", Coverage: map[string]interface{}{}}
	total, discharged, violations := 0, 0, 0
	backendCount := map[string]int{}
	var solverMs int64
	var samples []map[string]interface{}
	var slow []slowObl
	var fnNames, inlined, unmodelled, trusted, warnings, knownLines, undecidedNew, vacuity []string
	setAdd := func(dst *[]string, xs []string) {
		for _, x := range xs {
			found := false
			for _, y := range *dst {
				if y == x {
					found = true
				}
			}
			if !found {
				*dst = append(*dst, x)
			}
		}
	}
	fault := false
	var dischargedIDs []string
	var violationLines []string
	kindCount := map[string]int{}
	for _, r := range results {
		if r.Err != "" {
			// A contract that no longer type-checks or resolves against the function (a captured
			// variable, parameter or field it names is gone) cannot be established on this tree:
			// every obligation of the function that discharges on the reference tree is reported.
			n := 0
			if !strings.HasPrefix(r.Err, "encoder fault") {
				var ids []string
				for id := range locked {
					if strings.HasPrefix(id, r.Name+":") || strings.HasPrefix(id, r.Name+">") {
						ids = append(ids, id)
					}
				}
				sort.Strings(ids)
				for _, id := range ids {
					n++
					total++
					violations++
					p := filepath.Join(replayDir(prop), sanitizeFile(id)+".txt")
					os.WriteFile(p, []byte(fmt.Sprintf("// Replay record written by bmcvc.\n// property:   %s\n// obligation: %s\n// result:     no failing input found: the contract of %s can no longer be evaluated against the function's code, so the obligation (discharged on the reference tree) is not established\n//\n// verifier output:\n%s", prop, id, r.Name, commentOut(r.Err))), 0o644)
					violationLines = append(violationLines, fmt.Sprintf("VIOLATION property=%s replay=%s no-failing-input-found", prop, p))
					fmt.Printf("  obligation %s is no longer discharged: contract not evaluable: %s\n", id, firstLine(r.Err))
				}
			}
			if n == 0 {
				fmt.Fprintf(os.Stderr, "engine fault in %s: %s\n", r.Name, r.Err)
				fault = true
			}
			continue
		}
		fnNames = append(fnNames, r.Name)
		setAdd(&inlined, r.Inlined)
		setAdd(&unmodelled, r.Unmodelled)
		setAdd(&trusted, r.Trusted)
		setAdd(&warnings, r.Warnings)
		if r.Vacuity != "ok" {
			vacuity = append(vacuity, r.Name+": "+r.Vacuity)
			if r.Vacuity == "VACUOUS" && r.NotDischarged == 0 {
				// (when an assertion of the function fails on every path, assuming it afterwards
				// blocks every path: that is the reported violation, not a vacuous proof)
				fmt.Fprintf(os.Stderr, "engine fault: assumptions of %s are contradictory (vacuous proof)\n", r.Name)
				fault = true
			}
		}
		ct := w.Contracts[r.Fn]
		for _, or := range r.Results {
			if !belongs(or.O, ct, prop) {
				continue
			}
			total++
			kindCount[or.O.Kind]++
			solverMs += or.Res.Ms
			if or.Res.Status == "error" && strings.Contains(or.Res.Output, "disagreement") {
				fmt.Fprintln(os.Stderr, "engine fault:", or.Res.Output)
				fault = true
				continue
			}
			if or.Status == "discharged" || or.Status == "trivial" {
				dischargedIDs = append(dischargedIDs, or.O.ID)
				discharged++
				be := or.Res.Backend
				if be == "" {
					be = "simplifier"
				}
				backendCount[be]++
				if or.Status == "discharged" {
					slow = append(slow, slowObl{or.O.ID, or.Res.Backend, or.Res.Ms})
				}
				if len(samples) < 6 && or.Status == "discharged" {
					samples = append(samples, map[string]interface{}{"obligation": or.O.ID, "kind": or.O.Kind, "what": or.O.Desc, "result": "unsat", "backend": or.Res.Backend, "ms": or.Res.Ms, "assumptions": or.O.NAssume})
				}
				continue
			}
			// not discharged: known finding?
			handled := false
			for _, kf := range known.Findings {
				if kf.Property == prop && kf.Obligation == or.O.ID {
					ok, msg := checkRegion(w, r, or, kf, timeout)
					if ok {
						knownLines = append(knownLines, fmt.Sprintf("KNOWN-FINDING: property=%s %s [%s]", prop, kf.What, or.O.ID))
						discharged++ // discharged outside the listed region
						backendCount["region-excluded"]++
						handled = true
					} else {
						fmt.Fprintf(os.Stderr, "known finding %s does not cover this failure: %s\n", kf.Obligation, msg)
					}
					break
				}
			}
			if handled {
				continue
			}
			// replay
			rp := replayObligation(w, r, or, prop)
			switch {
			case rp.Confirmed:
				violations++
				violationLines = append(violationLines, fmt.Sprintf("VIOLATION property=%s replay=%s", prop, rp.Path))
				fmt.Printf("  obligation %s refuted; replay confirmed: %s\n", or.O.ID, rp.Summary)
			case locked[or.O.ID] || !safetyKind(or.O.Kind) || or.Status == "refuted":
				// an obligation that discharges on the reference tree no longer does - or a safety
				// obligation of a statement the reference tree does not have, for which the solver has a
				// model of the failure (every safety obligation of the reference tree discharges, so a
				// refuted one was introduced by the change; one the solvers merely cannot decide is
				// reported as undecided and raises no alarm)
				violations++
				violationLines = append(violationLines, fmt.Sprintf("VIOLATION property=%s replay=%s no-failing-input-found", prop, rp.Path))
				fmt.Printf("  obligation %s (%s) is no longer discharged: %s; %s\n", or.O.ID, or.O.Desc, or.Status, rp.Summary)
			default:
				undecidedNew = append(undecidedNew, or.O.ID+": "+or.Status+" ("+rp.Summary+")")
				fmt.Printf("  UNDECIDED new obligation %s: %s\n", or.O.ID, or.Status)
			}
		}
	}
	if sc := specialChecks[prop]; sc != nil {
		sr := sc(w, prop, thorough)
		total += sr.Obligations
		discharged += sr.Discharged
		for _, v := range sr.Violations {
			violations++
			violationLines = append(violationLines, v)
		}
		for k, v := range sr.Coverage {
			ev.Coverage[k] = v
		}
		samples = append(samples, sr.Samples...)
		if sr.Fault != "" {
			fmt.Fprintln(os.Stderr, "engine fault:", sr.Fault)
			fault = true
		}
		backendCount[sr.Backend] += sr.Discharged
		fnNames = append(fnNames, sr.Functions...)
	}
	if recs, vs := runBounded(w, prop); len(recs) > 0 {
		ev.Coverage["bounded_stand_ins"] = recs
		for _, v := range vs {
			violations++
			violationLines = append(violationLines, v)
		}
	}
	sort.Strings(fnNames)
	ev.Coverage["obligations"] = total
	ev.Coverage["discharged"] = discharged
	ev.Coverage["checker_cmd"] = fmt.Sprintf("/verif/bin/bmcvc check --tier %s %s  (VC generator over go/ssa of /repo's working tree; solvers raced: z3-new 5.1.0, z3 4.8.12, cvc5 1.0.3; budget %s of CPU time per solver and obligation, wall-clock limit fifteen times that)", tier, prop, timeout)
	tb := append([]string{}, trusted...)
	for _, u := range unmodelled {
		tb = append(tb, "unmodelled callee (result and all memory havocked): "+u)
	}
	tb = append(tb, "Go compiler/runtime implement the language semantics assumed by the encoding (DESIGN.md section 5)", "SMT solvers are sound for unsat")
	ev.Coverage["trusted_base"] = tb
	ev.Coverage["functions_under_contract"] = fnNames
	ev.Coverage["inlined_callees"] = inlined
	ev.Coverage["obligations_by_kind"] = kindCount
	ev.Coverage["discharged_by_backend"] = backendCount
	ev.Coverage["solver_ms"] = solverMs
	ev.Coverage["samples"] = samples
	sort.Slice(slow, func(i, j int) bool { return slow[i].Ms > slow[j].Ms })
	if len(slow) > 5 {
		slow = slow[:5]
	}
	ev.Coverage["slowest_obligations"] = slow
	ev.Coverage["known_findings"] = knownLines
	ev.Coverage["undecided_new"] = undecidedNew
	ev.Coverage["subset_warnings"] = warnings
	ev.Coverage["clauses_deferred_to_thorough_tier"] = skippedSlow
	ev.Coverage["vacuity"] = map[string]interface{}{"functions_checked": len(results), "not_ok": vacuity, "rule": "requires + callee postconditions + invariants must be satisfiable together with reaching a return"}
	if len(w.ContractDiff) > 0 {
		ev.Coverage["contract_mirror_differs_from_repo"] = w.ContractDiff
	}
	ev.Assumptions = []string{
		"integers are exact-width bit-vectors; slice/string lengths assumed <= 2^40",
		"pointer and interface parameters of a function under contract are non-nil",
		"distinct pointer parameters do not alias unless stated",
	}
	for _, t := range trusted {
		ev.Assumptions = append(ev.Assumptions, "trusted model: "+t)
	}
	ev.WallS = time.Since(t0).Seconds()
	ev.Violations = violations
	os.MkdirAll(filepath.Join(outDir, "evidence"), 0o755)
	b, _ := json.MarshalIndent(ev, "", " ")
	os.WriteFile(filepath.Join(outDir, "evidence", prop+".json"), b, 0o644)
	for _, l := range knownLines {
		fmt.Println(l)
	}
	fmt.Printf("%s: %d functions, %d obligations, %d discharged, %d violations, %d undecided-new, %.1fs\n", prop, len(fnNames), total, discharged, violations, len(undecidedNew), ev.WallS)
	if verbose {
		for _, r := range results {
			printFnResult(r, false)
		}
	}
	if writeLock && !fault && violations == 0 {
		if lock.Discharged == nil {
			lock.Discharged = map[string][]string{}
		}
		sort.Strings(dischargedIDs)
		lock.Discharged[prop] = dischargedIDs
		lb, _ := json.MarshalIndent(lock, "", " ")
		os.WriteFile(filepath.Join(verifDir, "obligations.lock.json"), lb, 0o644)
	}
	if fault {
		return 2
	}
	if total == 0 {
		fmt.Fprintln(os.Stderr, "engine fault: zero obligations generated for", prop)
		return 2
	}
	if violations > 0 {
		for _, l := range violationLines {
			fmt.Println(l)
		}
		return 1
	}
	return 0
}

// checkRegion re-asks the solver for the obligation with the finding's region excluded.
func checkRegion(w *World, r *FnResult, or *OblResult, kf KnownFinding, timeout time.Duration) (ok bool, msg string) {
	defer func() {
		if rec := recover(); rec != nil {
			ok, msg = false, fmt.Sprint(rec)
		}
	}()
	e := r.Enc
	ct := e.contract
	if ct == nil {
		return false, "function has no contract block to evaluate the region in"
	}
	env := e.contractEnv(e.topFrame, ct, nil, e.entry, e.entry)
	cl := &Clause{Kind: "requires", Text: kf.Region, File: "known_findings.json"}
	reg := env.trClause(cl)
	c := e.c
	as := append([]*Term{}, e.assumptions[:or.O.NAssume]...)
	as = append(as, or.O.Guard, c.Not(or.O.Goal), c.Not(reg))
	res := Solve("region_"+or.O.ID, c.Script(as, nil, ""), timeout, false)
	if res.Status == "unsat" {
		// the region itself must be a genuine failure (not an empty exclusion)
		return true, ""
	}
	return false, "obligation also fails outside the recorded region (" + res.Status + ")"
}

type specialResult struct {
	Obligations, Discharged int
	Violations              []string
	Coverage                map[string]interface{}
	Samples                 []map[string]interface{}
	Fault                   string
	Backend                 string
	Functions               []string
}

var specialChecks = map[string]func(w *World, prop string, thorough bool) specialResult{}

type slowObl struct {
	Obligation string `json:"obligation"`
	Backend    string `json:"backend"`
	Ms         int64  `json:"ms"`
}
