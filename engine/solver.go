package main

import (
	"bytes"
	"context"
	"fmt"
	"os"
	"os/exec"
	"path/filepath"
	"strings"
	"sync"
	"time"
)

type SolveResult struct {
	Status  string // "unsat", "sat", "unknown", "timeout", "error"
	Backend string
	Ms      int64
	Output  string            // raw output of the deciding back end
	All     map[string]string // backend -> status (thorough mode)
}

type backend struct {
	name string
	args func(file string, timeout time.Duration) []string
}

var backends = []backend{
	{"z3-5.1.0", func(f string, t time.Duration) []string {
		return []string{"z3-new", "-smt2", fmt.Sprintf("-T:%d", int(t.Seconds())+1), f}
	}},
	{"z3-4.8.12", func(f string, t time.Duration) []string {
		return []string{"z3", "-smt2", fmt.Sprintf("-T:%d", int(t.Seconds())+1), f}
	}},
	{"cvc5-1.0.3", func(f string, t time.Duration) []string {
		return []string{"cvc5", "--lang", "smt2", fmt.Sprintf("--tlimit=%d", t.Milliseconds()), f}
	}},
}

// the same solvers on the abstract-arithmetic rendering of a query (see Ctx.Script)
const absSuffix = "+uf-arith"

var absBackends = []backend{
	{backends[0].name + absSuffix, backends[0].args},
	{backends[2].name + absSuffix, backends[2].args},
}

var workDir string
var solverSem chan struct{}
var fileSeq int
var fileMu sync.Mutex

func initSolver(dir string, par int) {
	workDir = dir
	os.MkdirAll(dir, 0o755)
	solverSem = make(chan struct{}, par)
}

func firstLine(s string) string {
	s = strings.TrimSpace(s)
	if i := strings.IndexByte(s, '\n'); i >= 0 {
		return strings.TrimSpace(s[:i])
	}
	return s
}

// Solve races the back ends on a script. If all is true every back end is
// run to completion (thorough tier) and disagreement is reported as "error".
func Solve(name, script string, timeout time.Duration, all bool) SolveResult {
	fileMu.Lock()
	fileSeq++
	file := filepath.Join(workDir, fmt.Sprintf("q%05d_%s.smt2", fileSeq, sanitizeFile(name)))
	fileMu.Unlock()
	absFile := ""
	if k := strings.Index(script, absSeparator); k >= 0 {
		absFile = strings.TrimSuffix(file, ".smt2") + "_abs.smt2"
		if err := os.WriteFile(absFile, []byte(script[k+len(absSeparator):]), 0o644); err != nil {
			return SolveResult{Status: "error", Output: err.Error()}
		}
		script = script[:k]
		if !keepQueries {
			defer os.Remove(absFile)
		}
	}
	if err := os.WriteFile(file, []byte(script), 0o644); err != nil {
		return SolveResult{Status: "error", Output: err.Error()}
	}
	bes := backends
	if absFile != "" {
		bes = append(append([]backend{}, backends...), absBackends...)
	}
	ctx, cancel := context.WithCancel(context.Background())
	defer cancel()
	type one struct {
		be     string
		status string
		out    string
		ms     int64
	}
	ch := make(chan one, len(bes))
	for _, be := range bes {
		be := be
		go func() {
			solverSem <- struct{}{}
			defer func() { <-solverSem }()
			if ctx.Err() != nil {
				ch <- one{be.name, "cancelled", "", 0}
				return
			}
			// The budget is CPU time (ulimit -t), so that a loaded machine does not turn a proof
			// into a timeout; the solvers' own wall-clock limits and ours are set fifteen times
			// higher and only stop a solver that is not getting any CPU at all.
			wall := 15 * timeout
			args := be.args(file, wall)
			isAbs := strings.HasSuffix(be.name, absSuffix)
			if isAbs {
				args = be.args(absFile, wall)
			}
			cctx, ccancel := context.WithTimeout(ctx, wall+2*time.Second)
			defer ccancel()
			shargs := []string{"-c", fmt.Sprintf("ulimit -t %d; exec \"$@\"", int(timeout.Seconds())+1), "sh"}
			cmd := exec.CommandContext(cctx, "sh", append(shargs, args...)...)
			var buf bytes.Buffer
			cmd.Stdout = &buf
			cmd.Stderr = &buf
			t0 := time.Now()
			cmd.Run()
			ms := time.Since(t0).Milliseconds()
			out := buf.String()
			st := firstLine(out)
			switch {
			case isAbs && st == "sat":
				st = "unknown" // a model of the abstraction is not a model of the query
			case st == "unsat" || st == "sat":
			case st == "unknown":
			case strings.Contains(st, "timeout") || cctx.Err() != nil || (st == "" && cmd.ProcessState != nil && !cmd.ProcessState.Success()):
				// (killed by the CPU limit: no output)
				if ctx.Err() != nil {
					st = "cancelled"
				} else {
					st = "timeout"
				}
			default:
				st = "error"
			}
			ch <- one{be.name, st, out, ms}
		}()
	}
	res := SolveResult{Status: "unknown", All: map[string]string{}}
	var firstDef *one
	worst := ""
	for i := 0; i < len(bes); i++ {
		o := <-ch
		res.All[o.be] = o.status
		if o.status == "unsat" || o.status == "sat" {
			if firstDef == nil {
				oc := o
				firstDef = &oc
				if !all {
					cancel()
				}
			} else if all && firstDef.status != o.status {
				return SolveResult{Status: "error", Output: fmt.Sprintf("solver disagreement: %s=%s %s=%s (query %s)", firstDef.be, firstDef.status, o.be, o.status, file), All: res.All}
			}
		} else if o.status == "error" {
			worst += o.be + ": " + firstLine(o.out) + "; "
		} else if o.status == "timeout" && res.Status == "unknown" {
			res.Status = "timeout"
		}
	}
	if firstDef != nil {
		res.Status = firstDef.status
		res.Backend = firstDef.be
		res.Ms = firstDef.ms
		res.Output = firstDef.out
		if !keepQueries {
			os.Remove(file)
		}
		return res
	}
	res.Output = worst + " query=" + file
	if len(res.All) > 0 {
		allErr := true
		for _, s := range res.All {
			if s != "error" {
				allErr = false
			}
		}
		if allErr {
			res.Status = "error"
		}
	}
	return res
}

var keepQueries = false

func sanitizeFile(s string) string {
	var sb strings.Builder
	for _, r := range s {
		if r >= 'a' && r <= 'z' || r >= 'A' && r <= 'Z' || r >= '0' && r <= '9' || r == '_' || r == '.' || r == '-' {
			sb.WriteRune(r)
		} else {
			sb.WriteByte('_')
		}
		if sb.Len() > 80 {
			break
		}
	}
	return sb.String()
}

// ---- s-expression parsing of get-value replies ------------------------------

type Sexp struct {
	Atom string
	List []*Sexp
}

func parseSexps(s string) []*Sexp {
	var out []*Sexp
	i := 0
	for {
		x, j := parseSexp(s, i)
		if x == nil {
			break
		}
		out = append(out, x)
		i = j
	}
	return out
}

func parseSexp(s string, i int) (*Sexp, int) {
	for i < len(s) && (s[i] == ' ' || s[i] == '\n' || s[i] == '\t' || s[i] == '\r') {
		i++
	}
	if i >= len(s) {
		return nil, i
	}
	if s[i] == '(' {
		i++
		x := &Sexp{List: []*Sexp{}}
		for {
			for i < len(s) && (s[i] == ' ' || s[i] == '\n' || s[i] == '\t' || s[i] == '\r') {
				i++
			}
			if i >= len(s) {
				return x, i
			}
			if s[i] == ')' {
				return x, i + 1
			}
			y, j := parseSexp(s, i)
			if y == nil {
				return x, j
			}
			x.List = append(x.List, y)
			i = j
		}
	}
	if s[i] == ')' {
		return nil, i + 1
	}
	j := i
	if s[i] == '|' {
		j = i + 1
		for j < len(s) && s[j] != '|' {
			j++
		}
		j++
	} else if s[i] == '"' {
		j = i + 1
		for j < len(s) && s[j] != '"' {
			j++
		}
		j++
	} else {
		for j < len(s) && s[j] != ' ' && s[j] != '\n' && s[j] != '\t' && s[j] != '(' && s[j] != ')' && s[j] != '\r' {
			j++
		}
	}
	return &Sexp{Atom: s[i:j]}, j
}

func (x *Sexp) String() string {
	if x.List == nil {
		return x.Atom
	}
	var parts []string
	for _, y := range x.List {
		parts = append(parts, y.String())
	}
	return "(" + strings.Join(parts, " ") + ")"
}

// parseValues extracts the i-th value of a (get-value ...) reply from solver
// output (after the first line "sat").
func parseValues(out string, n int) []*Sexp {
	idx := strings.Index(out, "\n")
	if idx < 0 {
		return nil
	}
	xs := parseSexps(out[idx+1:])
	if len(xs) == 0 || xs[0].List == nil {
		return nil
	}
	var vals []*Sexp
	for _, p := range xs[0].List {
		if len(p.List) == 2 {
			vals = append(vals, p.List[1])
		}
	}
	if len(vals) != n {
		return nil
	}
	return vals
}

// sexpToUint interprets a bit-vector / int / bool literal.
func sexpToUint(x *Sexp) (uint64, bool) {
	if x.List != nil {
		// (_ bv123 32) or (- 5)
		if len(x.List) == 3 && x.List[0].Atom == "_" && strings.HasPrefix(x.List[1].Atom, "bv") {
			var v uint64
			fmt.Sscanf(x.List[1].Atom[2:], "%d", &v)
			return v, true
		}
		if len(x.List) == 2 && x.List[0].Atom == "-" {
			v, ok := sexpToUint(x.List[1])
			return uint64(-int64(v)), ok
		}
		return 0, false
	}
	a := x.Atom
	switch {
	case a == "true":
		return 1, true
	case a == "false":
		return 0, true
	case strings.HasPrefix(a, "#x"):
		var v uint64
		fmt.Sscanf(a[2:], "%x", &v)
		return v, true
	case strings.HasPrefix(a, "#b"):
		var v uint64
		for _, ch := range a[2:] {
			v = v<<1 | uint64(ch-'0')
		}
		return v, true
	default:
		var v int64
		if _, err := fmt.Sscanf(a, "%d", &v); err == nil {
			return uint64(v), true
		}
	}
	return 0, false
}
