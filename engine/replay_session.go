package main

// Scripted-peer replays for obligations of the in-session and session-less
// command retry closures (and the functions around them). The solver's model
// supplies the values that matter - the command's operation, the session's
// IDs and sequence number, and the fields the reply decodes to - and the
// generated in-package test plays a BMC that sends exactly such a reply
// (built with the library's own serialisers and the session's keys, so that
// it passes the real integrity check and decryption), then observes what the
// real code does.
//
// Two oracles:
//   accept:   the clause says "success implies P(reply fields)"; the model
//             gives a reply with not P; the replay is confirmed when the real
//             call completes successfully on that single reply.
//   requests: the clause constrains what is sent; the replay runs the script
//             "temporary completion code, then a final one" and checks every
//             datagram the real code sends (RMCP header, session wrapper,
//             decrypted message) against the session and the command.

import (
	"fmt"
	"strings"
	"sync"
	"time"
)

type sessExpr struct {
	name string // placeholder in the template
	text string // contract-language expression evaluated in the final state
	old  bool   // evaluate in the entry state
}

// sessionReplay returns the source of the replay test, or ok=false if the
// obligation is not one this template covers.
func sessionReplay(w *World, e *Encoder, o *Obligation) (src string, ok bool, why string) {
	fn := e.top.String()
	inSession := strings.HasSuffix(fn, "bmc.V2Session).buildAndSend$1")
	sessionless := strings.HasSuffix(fn, "bmc.V2Sessionless).buildAndSendCommand$1") || strings.HasSuffix(fn, "bmc.V2Sessionless).buildAndSendCommand")
	if !inSession && !sessionless {
		return "", false, ""
	}
	if e.contract == nil || e.topFrame == nil {
		return "", false, ""
	}
	oracle := ""
	id := o.ID
	switch {
	case strings.Contains(id, "C04.") || strings.Contains(id, "C11.match") || strings.Contains(id, "response-counted") || strings.Contains(id, "C10.final") || strings.Contains(id, "C10.temporary"):
		oracle = "accept"
	case containsAny(id, "wrapper", ".message", ".rmcp", "C09", ".sent", "terminal", ".seq", ".step", "null-session", "stray"):
		oracle = "requests"
	default:
		return "", false, ""
	}
	exprs := []sessExpr{
		{"OpFunction", "c.Operation().Function", false}, {"OpCommand", "c.Operation().Command", false}, {"OpBody", "c.Operation().Body", false}, {"OpEnterprise", "c.Operation().Enterprise", false},
		{"RFunction", "s.messageLayer.Function", false}, {"RCommand", "s.messageLayer.Command", false}, {"RBody", "s.messageLayer.Body", false}, {"REnterprise", "s.messageLayer.Enterprise", false},
		{"RCode", "s.messageLayer.CompletionCode", false},
	}
	if inSession {
		exprs = append(exprs,
			sessExpr{"LocalID", "s.LocalID", false}, sessExpr{"RemoteID", "s.RemoteID", false},
			sessExpr{"Inbound", "s.AuthenticatedSequenceNumbers.Inbound", true},
			sessExpr{"RAuthenticated", "s.v2SessionLayer.Authenticated", false}, sessExpr{"RSessionID", "s.v2SessionLayer.ID", false})
	}
	c := e.c
	env := e.contractEnv(e.topFrame, e.contract, nil, e.cur, e.entry)
	var terms []*Term
	for _, x := range exprs {
		cl := &Clause{Kind: "ensures", Text: x.text, File: "replay", Line: 0}
		if x.old {
			cl.Text = "old(" + x.text + ")"
		}
		v, okv := func() (v *SVal, okv bool) {
			defer func() {
				if r := recover(); r != nil {
					okv = false
				}
			}()
			return env.trClauseVal(cl), true
		}()
		if !okv || v == nil || v.T == nil {
			return "", false, "session replay: cannot evaluate " + x.text
		}
		terms = append(terms, v.T)
	}
	as := append([]*Term{}, e.assumptions[:o.NAssume]...)
	as = append(as, o.Extra...)
	as = append(as, o.Guard, c.Not(o.Goal))
	// the model must describe a session the scripted peer can be built for, and the replay uses the
	// model's values unchanged: an integrity algorithm (the replay session uses HMAC-SHA1-96 and
	// AES-CBC-128), distinct non-null session IDs, a sequence number away from the wrap-around, a plain
	// request network function and a plain reply network function (no group / OEM body: a command that
	// names a body code or enterprise under a plain function can never be answered)
	wf := []string{"c.Operation().Function & 1 == 0 && c.Operation().Function < 0x2c && c.Operation().Body == 0 && c.Operation().Enterprise == 0", "s.messageLayer.Function < 0x2c"}
	if inSession {
		wf = append(wf, "!isnil(s.integrityAlgorithm)", "s.LocalID != 0 && s.RemoteID != 0 && s.LocalID != s.RemoteID",
			"old(s.AuthenticatedSequenceNumbers.Inbound) < 0xfffffff0")
	}
	var prefer []*Term
	for _, text := range wf {
		cl := &Clause{Kind: "ensures", Text: text, File: "replay"}
		t, okp := func() (t *Term, okp bool) {
			defer func() {
				if r := recover(); r != nil {
					okp = false
				}
			}()
			return env.trClause(cl), true
		}()
		if !okp {
			return "", false, "session replay: cannot evaluate " + text
		}
		prefer = append(prefer, t)
	}
	res := Solve("sessmodel_"+o.ID, c.Script(append(append([]*Term{}, as...), prefer...), terms, ""), 20*time.Second, false)
	if res.Status != "sat" {
		return "", false, "session replay: no model of the failure describes a well-formed session (" + res.Status + ")"
	}
	vals := parseValues(res.Output, len(terms))
	if vals == nil {
		return "", false, "session replay: could not parse the model"
	}
	m := map[string]uint64{}
	for i, x := range exprs {
		if u, okv := sexpToUint(vals[i]); okv {
			m[x.name] = u
		}
	}
	return fillSessionTemplate(m, inSession, oracle, o.ID), true, ""
}

// fillSessionTemplate instantiates the replay test for given values.
func fillSessionTemplate(m map[string]uint64, inSession bool, oracle, oblID string) string {
	tmpl := sessionReplayTemplate
	rep := func(k string, v string) { tmpl = strings.ReplaceAll(tmpl, "@"+k+"@", v) }
	for _, k := range []string{"OpFunction", "OpCommand", "OpBody", "OpEnterprise", "RFunction", "RCommand", "RBody", "REnterprise", "RCode",
		"LocalID", "RemoteID", "Inbound", "RAuthenticated", "RSessionID"} {
		rep(k, fmt.Sprintf("%d", m[k]))
	}
	rep("InSession", fmt.Sprintf("%v", inSession))
	rep("Oracle", oracle)
	rep("Obligation", oblID)
	return tmpl
}

const sessionReplayTemplate = `package bmc

// Generated by bmcvc: scripted-peer replay of obligation @Obligation@.

import (
	"bytes"
	"context"
	"crypto/aes"
	"crypto/cipher"
	"crypto/hmac"
	"crypto/sha1"
	"encoding/binary"
	"errors"
	"fmt"
	"net"
	"testing"
	"time"

	"github.com/cenkalti/backoff/v4"
	"github.com/gebn/bmc/pkg/iana"
	"github.com/gebn/bmc/pkg/ipmi"
	"github.com/google/gopacket"
	"github.com/google/gopacket/layers"
)

type verifReplayCmd struct {
	op             ipmi.Operation
	lun            ipmi.LUN
	unserialisable bool
}

func (*verifReplayCmd) Name() string                         { return "verif replay" }
func (c *verifReplayCmd) Operation() *ipmi.Operation         { return &c.op }
func (c *verifReplayCmd) RemoteLUN() ipmi.LUN                { return c.lun }
func (c *verifReplayCmd) Request() gopacket.SerializableLayer {
	if c.unserialisable {
		return verifBadLayer{}
	}
	return nil
}

type verifBadLayer struct{}

func (verifBadLayer) LayerType() gopacket.LayerType { return gopacket.LayerTypePayload }
func (verifBadLayer) SerializeTo(gopacket.SerializeBuffer, gopacket.SerializeOptions) error {
	return errors.New("request refuses to serialise")
}
func (*verifReplayCmd) Response() gopacket.DecodingLayer     { return nil }

type verifReplayBMC struct {
	replies [][]byte
	reqs    [][]byte
}

func (*verifReplayBMC) Address() net.Addr { return &net.UDPAddr{} }
func (*verifReplayBMC) Close() error      { return nil }
func (t *verifReplayBMC) Send(_ context.Context, b []byte) ([]byte, error) {
	t.reqs = append(t.reqs, append([]byte{}, b...))
	if len(t.replies) == 0 || t.replies[0] == nil {
		if len(t.replies) > 0 {
			t.replies = t.replies[1:]
		}
		return nil, errors.New("no reply")
	}
	r := t.replies[0]
	t.replies = t.replies[1:]
	return r, nil
}

var (
	verifK1 = bytes.Repeat([]byte{0x11}, 20)
	verifK2 = [16]byte{1, 2, 3, 4, 5, 6, 7, 8, 9, 10, 11, 12, 13, 14, 15, 16}
)

func verifIntegrity() truncatedHash { return truncatedHash{Hash: hmac.New(sha1.New, verifK1), length: 12} }

// a reply datagram that decodes to the given fields (signed and encrypted with the session's keys)
func verifReply(inSession bool, authenticated bool, sessionID uint32, seq uint32, op ipmi.Operation, code ipmi.CompletionCode) []byte {
	msg := &ipmi.Message{Operation: op, RemoteAddress: ipmi.SoftwareIDRemoteConsole1.Address(), LocalAddress: ipmi.SlaveAddressBMC.Address(), Sequence: 1, CompletionCode: code}
	buf := gopacket.NewSerializeBuffer()
	rmcp := &layers.RMCP{Version: layers.RMCPVersion1, Sequence: 0xff, Class: layers.RMCPClassIPMI}
	if !inSession {
		sess := &ipmi.V2Session{PayloadDescriptor: ipmi.PayloadDescriptorIPMI}
		if err := gopacket.SerializeLayers(buf, serializeOptions, rmcp, sess, msg); err != nil {
			panic(err)
		}
		return append([]byte{}, buf.Bytes()...)
	}
	aesLayer, _ := ipmi.NewAES128CBC(verifK2)
	sess := &ipmi.V2Session{Encrypted: true, Authenticated: authenticated, ID: sessionID, Sequence: seq, PayloadDescriptor: ipmi.PayloadDescriptorIPMI, IntegrityAlgorithm: verifIntegrity()}
	if err := gopacket.SerializeLayers(buf, serializeOptions, rmcp, sess, aesLayer, msg); err != nil {
		panic(err)
	}
	return append([]byte{}, buf.Bytes()...)
}

func verifSession(t *verifReplayBMC, localID, remoteID, inbound uint32) *V2Session {
	sl := newV2Sessionless(t, 150*time.Millisecond)
	sl.backoff = &backoff.ZeroBackOff{} // retransmit at once: the replay must not depend on timing
	cipherLayer, _ := ipmi.NewAES128CBC(verifK2)
	sess := &V2Session{
		v2ConnectionShared:   &sl.v2ConnectionShared,
		LocalID:              localID,
		RemoteID:             remoteID,
		integrityAlgorithm:   verifIntegrity(),
		confidentialityLayer: cipherLayer,
		timeout:              150 * time.Millisecond,
	}
	sess.AuthenticatedSequenceNumbers.Inbound = inbound
	dlc := gopacket.DecodingLayerContainer(gopacket.DecodingLayerArray(nil))
	dlc = dlc.Put(&sess.rmcpLayer)
	dlc = dlc.Put(&sess.sessionSelectorLayer)
	dlc = dlc.Put(&sess.v2SessionLayer)
	dlc = dlc.Put(cipherLayer)
	dlc = dlc.Put(&sess.messageLayer)
	sess.decode = dlc.LayersDecoder(sess.rmcpLayer.LayerType(), gopacket.NilDecodeFeedback)
	return sess
}

// checks one datagram the library sent; returns a description of what is wrong, or ""
func verifCheckRequest(inSession bool, b []byte, remoteID uint32, wantSeq uint32, op ipmi.Operation, lun ipmi.LUN) string {
	if len(b) < 16 || !bytes.Equal(b[:4], []byte{0x06, 0x00, 0xff, 0x07}) {
		return fmt.Sprintf("RMCP header % x", b[:4])
	}
	if b[4] != 0x06 {
		return "authentication type is not RMCP+"
	}
	id, seq, n := binary.LittleEndian.Uint32(b[6:10]), binary.LittleEndian.Uint32(b[10:14]), int(binary.LittleEndian.Uint16(b[14:16]))
	var msg []byte
	if inSession {
		if b[5] != 0xc0 {
			return fmt.Sprintf("payload type byte %#x, want 0xc0 (encrypted, authenticated, IPMI)", b[5])
		}
		if id != remoteID {
			return fmt.Sprintf("session ID %#x, want the BMC's %#x", id, remoteID)
		}
		if seq != wantSeq {
			return fmt.Sprintf("session sequence number %d, want %d", seq, wantSeq)
		}
		if 16+n > len(b) || n < 32 || n%16 != 0 {
			return "confidentiality payload length"
		}
		blk, _ := aes.NewCipher(verifK2[:])
		dec := make([]byte, n-16)
		cipher.NewCBCDecrypter(blk, b[16:32]).CryptBlocks(dec, b[32:16+n])
		pad := int(dec[len(dec)-1])
		if pad+1 > len(dec) {
			return "confidentiality pad length"
		}
		msg = dec[:len(dec)-pad-1]
		mac := hmac.New(sha1.New, verifK1)
		end := 16 + n
		for end < len(b) && b[end] == 0xff {
			end++
		}
		end += 2
		mac.Write(b[4:end])
		if end > len(b) || !hmac.Equal(mac.Sum(nil)[:12], b[end:]) {
			return "AuthCode does not verify under K1"
		}
	} else {
		if b[5] != 0x00 || id != 0 || seq != 0 {
			return fmt.Sprintf("null session wrapper expected, got type %#x id %#x seq %d", b[5], id, seq)
		}
		if 16+n > len(b) {
			return "payload length"
		}
		msg = b[16 : 16+n]
	}
	if len(msg) < 7 {
		return "message too short"
	}
	if msg[0] != 0x20 || msg[3] != 0x81 {
		return fmt.Sprintf("addresses rs %#x rq %#x, want 0x20 / 0x81", msg[0], msg[3])
	}
	if msg[1] != uint8(op.Function)<<2|uint8(lun) {
		return fmt.Sprintf("NetFn/LUN byte %#x, want %#x", msg[1], uint8(op.Function)<<2|uint8(lun))
	}
	if msg[4] != 1<<2 || msg[5] != uint8(op.Command) {
		return fmt.Sprintf("sequence/LUN byte %#x command %#x, want 0x04 / %#x", msg[4], msg[5], uint8(op.Command))
	}
	return ""
}

func TestVerifReplay(t *testing.T) {
	const inSession = @InSession@
	op := ipmi.Operation{Function: ipmi.NetworkFunction(@OpFunction@), Command: ipmi.CommandNumber(@OpCommand@), Body: ipmi.BodyCode(@OpBody@), Enterprise: iana.Enterprise(@OpEnterprise@)}
	rop := ipmi.Operation{Function: ipmi.NetworkFunction(@RFunction@), Command: ipmi.CommandNumber(@RCommand@), Body: ipmi.BodyCode(@RBody@), Enterprise: iana.Enterprise(@REnterprise@)}
	cmd := &verifReplayCmd{op: op}
	bmc := &verifReplayBMC{}
	ctx, cancel := context.WithTimeout(context.Background(), 2*time.Second)
	defer cancel()
	localID, remoteID, inbound := uint32(@LocalID@), uint32(@RemoteID@), uint32(@Inbound@)
	// the values are used as the solver gave them; a model that is not a well-formed session is not replayed
	if op.Function&1 != 0 || op.Function >= 0x2c || op.Body != 0 || op.Enterprise != 0 || rop.Function >= 0x2c || (inSession && (localID == 0 || remoteID == 0 || localID == remoteID || inbound >= 0xfffffff0)) {
		fmt.Println("VERIF-REPLAY: skipped: the model does not describe a well-formed session")
		return
	}
	var sessObj *V2Session
	var slObj *V2Sessionless
	if inSession {
		sessObj = verifSession(bmc, localID, remoteID, inbound)
	} else {
		slObj = newV2Sessionless(bmc, 150*time.Millisecond)
		slObj.backoff = &backoff.ZeroBackOff{}
	}
	runCmd := func(c *verifReplayCmd) error {
		if inSession {
			return sessObj.buildAndSend(ctx, c)
		}
		return slObj.buildAndSendCommand(ctx, c)
	}
	run := func() error { return runCmd(cmd) }
	switch "@Oracle@" {
	case "accept":
		// the reply of the solver's model: it must not complete the command
		bmc.replies = [][]byte{verifReply(inSession, @RAuthenticated@ != 0, uint32(@RSessionID@), 1, rop, ipmi.CompletionCode(@RCode@))}
		err := run()
		if err == nil && len(bmc.reqs) == 1 {
			fmt.Printf("VERIF-REPLAY: violated: the command (NetFn %#x cmd %#x) completed on a reply with authenticated=%v session ID %#x (own ID %#x) NetFn %#x cmd %#x completion code %#x\n",
				uint8(op.Function), uint8(op.Command), @RAuthenticated@ != 0, uint32(@RSessionID@), localID, uint8(rop.Function), uint8(rop.Command), uint8(@RCode@))
			return
		}
		fmt.Printf("VERIF-REPLAY: holds (err=%v after %d datagrams)\n", err, len(bmc.reqs))
	case "requests":
		good := ipmi.Operation{Function: op.Function | 1, Command: op.Command, Body: op.Body, Enterprise: op.Enterprise}
		bmc.replies = [][]byte{
			verifReply(inSession, true, localID, 1, good, ipmi.CompletionCodeNodeBusy),
			verifReply(inSession, true, localID, 2, good, ipmi.CompletionCodeNormal),
		}
		err := run()
		for k, req := range bmc.reqs {
			if bad := verifCheckRequest(inSession, req, remoteID, inbound+1+uint32(k), op, cmd.lun); bad != "" {
				fmt.Printf("VERIF-REPLAY: violated: datagram %d of the script [node busy, normal]: %s\n", k+1, bad)
				return
			}
		}
		if err != nil || len(bmc.reqs) != 2 {
			fmt.Printf("VERIF-REPLAY: violated: script [node busy, normal] ended with err=%v after %d datagrams, want success after 2\n", err, len(bmc.reqs))
			return
		}
		// a second, different command on the same connection / session: nothing of the first may leak into it
		op2 := ipmi.Operation{Function: (op.Function + 2) & 0x3e, Command: op.Command + 1}
		cmd2 := &verifReplayCmd{op: op2}
		good2 := ipmi.Operation{Function: op2.Function | 1, Command: op2.Command}
		bmc.replies = [][]byte{verifReply(inSession, true, localID, 3, good2, ipmi.CompletionCodeNormal)}
		err = runCmd(cmd2)
		if len(bmc.reqs) >= 3 {
			if bad := verifCheckRequest(inSession, bmc.reqs[2], remoteID, inbound+3, op2, cmd2.lun); bad != "" {
				fmt.Printf("VERIF-REPLAY: violated: first datagram of a second command on the same connection: %s\n", bad)
				return
			}
		}
		if err != nil || len(bmc.reqs) != 3 {
			fmt.Printf("VERIF-REPLAY: violated: a second command on the same connection ended with err=%v after %d datagrams in total, want success after 3\n", err, len(bmc.reqs))
			return
		}
		// a reply to another command (a duplicate left over from earlier, say) is passed over: the attempt is retried
		{
			other := ipmi.Operation{Function: good.Function, Command: good.Command + 1}
			bmc5 := &verifReplayBMC{replies: [][]byte{verifReply(inSession, true, localID, 1, other, ipmi.CompletionCodeNormal), verifReply(inSession, true, localID, 2, good, ipmi.CompletionCodeNormal)}}
			ctx5, cancel5 := context.WithTimeout(context.Background(), 2*time.Second)
			defer cancel5()
			var err5 error
			if inSession {
				err5 = verifSession(bmc5, localID, remoteID, inbound).buildAndSend(ctx5, cmd)
			} else {
				sl5 := newV2Sessionless(bmc5, 150*time.Millisecond)
				sl5.backoff = &backoff.ZeroBackOff{}
				err5 = sl5.buildAndSendCommand(ctx5, cmd)
			}
			if err5 != nil || len(bmc5.reqs) != 2 {
				fmt.Printf("VERIF-REPLAY: violated: script [reply to another command, normal] ended with err=%v after %d datagrams, want success after 2\n", err5, len(bmc5.reqs))
				return
			}
		}
		// a reply that cannot be decoded is retried, and the retransmission must not reuse a sequence number
		if inSession {
			bmc3 := &verifReplayBMC{replies: [][]byte{{0x06, 0x00, 0xff, 0x07, 0x06}, verifReply(true, true, localID, 1, good, ipmi.CompletionCodeNormal)}}
			ctx3, cancel3 := context.WithTimeout(context.Background(), 2*time.Second)
			defer cancel3()
			err3 := verifSession(bmc3, localID, remoteID, inbound).buildAndSend(ctx3, cmd)
			for k, req := range bmc3.reqs {
				if bad := verifCheckRequest(true, req, remoteID, inbound+1+uint32(k), op, cmd.lun); bad != "" {
					fmt.Printf("VERIF-REPLAY: violated: datagram %d of the script [undecodable reply, normal]: %s\n", k+1, bad)
					return
				}
			}
			if err3 != nil || len(bmc3.reqs) != 2 {
				fmt.Printf("VERIF-REPLAY: violated: script [undecodable reply, normal] ended with err=%v after %d datagrams, want success after 2\n", err3, len(bmc3.reqs))
				return
			}
		}
		// a command that cannot be serialised sends nothing and consumes no sequence number
		if inSession {
			bmc4 := &verifReplayBMC{replies: [][]byte{verifReply(true, true, localID, 1, good, ipmi.CompletionCodeNormal)}}
			ctx4, cancel4 := context.WithTimeout(context.Background(), 2*time.Second)
			defer cancel4()
			s4 := verifSession(bmc4, localID, remoteID, inbound)
			err4 := s4.buildAndSend(ctx4, &verifReplayCmd{op: op, unserialisable: true})
			if err4 == nil || len(bmc4.reqs) != 0 {
				fmt.Printf("VERIF-REPLAY: violated: a command whose request cannot be serialised ended with err=%v after %d datagrams, want an error and none\n", err4, len(bmc4.reqs))
				return
			}
			err4 = s4.buildAndSend(ctx4, cmd)
			if len(bmc4.reqs) >= 1 {
				if bad := verifCheckRequest(true, bmc4.reqs[0], remoteID, inbound+1, op, cmd.lun); bad != "" {
					fmt.Printf("VERIF-REPLAY: violated: first datagram after a command that could not be serialised: %s\n", bad)
					return
				}
			}
			if err4 != nil || len(bmc4.reqs) != 1 {
				fmt.Printf("VERIF-REPLAY: violated: the command after one that could not be serialised ended with err=%v after %d datagrams, want success after 1\n", err4, len(bmc4.reqs))
				return
			}
		}
		// a lost exchange must end an in-session command without retransmission
		if inSession {
			bmc2 := &verifReplayBMC{replies: [][]byte{nil, verifReply(true, true, localID, 1, good, ipmi.CompletionCodeNormal)}}
			ctx2, cancel2 := context.WithTimeout(context.Background(), 2*time.Second)
			defer cancel2()
			err2 := verifSession(bmc2, localID, remoteID, inbound).buildAndSend(ctx2, cmd)
			if err2 == nil || len(bmc2.reqs) != 1 {
				fmt.Printf("VERIF-REPLAY: violated: after a lost exchange the command ended with err=%v after %d datagrams, want an error after 1\n", err2, len(bmc2.reqs))
				return
			}
		}
		fmt.Println("VERIF-REPLAY: holds")
	}
}
`

func containsAny(s string, subs ...string) bool {
	for _, x := range subs {
		if strings.Contains(s, x) {
			return true
		}
	}
	return false
}

// replayOracleCheck runs the scripted-peer template against the current tree with hand-picked
// values: request scripts, and replies that a conforming implementation must not accept. On a tree
// where the session properties hold every one of them must print "holds"; one good reply must be
// reported as accepted (so that an oracle that can never fire is noticed). Used by tools/selftest.sh.
func replayOracleCheck(w *World) int {
	type tc struct {
		name      string
		inSession bool
		oracle    string
		m         map[string]uint64
		want      string
	}
	base := func(fn, cmd, local, remote, inbound uint64) map[string]uint64 {
		return map[string]uint64{"OpFunction": fn, "OpCommand": cmd, "LocalID": local, "RemoteID": remote, "Inbound": inbound,
			"RFunction": fn + 1, "RCommand": cmd, "RCode": 0, "RAuthenticated": 1, "RSessionID": local}
	}
	with := func(m map[string]uint64, kv ...interface{}) map[string]uint64 {
		r := map[string]uint64{}
		for k, v := range m {
			r[k] = v
		}
		for i := 0; i+1 < len(kv); i += 2 {
			r[kv[i].(string)] = uint64(kv[i+1].(int))
		}
		return r
	}
	b := base(0x06, 0x01, 0x01020304, 0x0a0b0c0d, 7)
	tcs := []tc{
		{"requests in-session", true, "requests", b, "holds"},
		{"requests in-session, extreme values", true, "requests", base(0x2a, 0xff, 0xffffffff, 1, 0xffffffef), "holds"},
		{"requests in-session, zero values", true, "requests", base(0, 0, 1, 2, 0), "holds"},
		{"requests session-less", false, "requests", b, "holds"},
		{"requests session-less, extreme values", false, "requests", base(0x2a, 0xff, 0, 0, 0), "holds"},
		{"guard: body code under a plain function", true, "requests", with(b, "OpBody", 1), "skipped"},
		{"guard: null session ID", true, "requests", with(b, "LocalID", 0), "skipped"},
		{"accept: good reply (must be accepted)", true, "accept", b, "violated"},
		{"accept: good reply, session-less (must be accepted)", false, "accept", with(b, "RSessionID", 0, "RAuthenticated", 0), "violated"},
		{"accept: wrong session ID", true, "accept", with(b, "RSessionID", 0x0a0b0c0d), "holds"},
		{"accept: null session ID", true, "accept", with(b, "RSessionID", 0), "holds"},
		{"accept: unauthenticated", true, "accept", with(b, "RAuthenticated", 0), "holds"},
		{"accept: other command", true, "accept", with(b, "RCommand", 2), "holds"},
		{"accept: other network function", true, "accept", with(b, "RFunction", 0x0b), "holds"},
		{"accept: echo of the request function", true, "accept", with(b, "RFunction", 0x06), "holds"},
		{"accept: node busy", true, "accept", with(b, "RCode", 0xc0), "holds"},
		{"accept: other command, session-less", false, "accept", with(b, "RCommand", 2, "RSessionID", 0, "RAuthenticated", 0), "holds"},
	}
	type res struct{ outcome, log string }
	out := make([]res, len(tcs))
	var wg sync.WaitGroup
	sem := make(chan bool, 8)
	for i, t := range tcs {
		wg.Add(1)
		go func(i int, t tc) {
			defer wg.Done()
			sem <- true
			defer func() { <-sem }()
			o, l := runReplayIn(w, modPath, fillSessionTemplate(t.m, t.inSession, t.oracle, "oracle check: "+t.name))
			out[i] = res{o, l}
		}(i, t)
	}
	wg.Wait()
	bad := 0
	for i, t := range tcs {
		st := "ok  "
		if out[i].outcome != t.want {
			st = "FAIL"
			bad++
		}
		fmt.Printf("%s %-55s want %-8s got %-8s %s\n", st, t.name, t.want, out[i].outcome, strings.ReplaceAll(out[i].log, "\n", " | "))
	}
	if bad > 0 {
		return 1
	}
	return 0
}
