package main

// Function encoder: go/ssa -> passive verification conditions.

import (
	"fmt"
	"go/ast"
	"go/constant"
	"go/printer"
	"go/token"
	"go/types"
	"sort"
	"strings"
	"sync"

	"golang.org/x/tools/go/ssa"
)

type Obligation struct {
	ID      string
	Kind    string // safety kinds, "ensures", "requires", "invariant-init", "invariant-step", "variant", "frame", "cand"
	Fn      string
	Desc    string
	Props   []string
	Guard   *Term
	Goal    *Term
	NAssume int
	Pos     token.Position
	Cand    int    // unused
	CandKey string // candidate invariant key (Houdini) or ""
	Extra   []*Term
	NIMap   map[*Term]*Term // non-interference: substitution giving the second run's terms
	Expr    string          // Go text of the contract clause, for replay
	Clause  *Clause         // the clause itself (typed expression), for replay
}

type Encoder struct {
	w             *World
	c             *Ctx
	sorts         map[string]*Sort
	deepPre       bool
	packets       map[*Term][2]*SVal // gopacket.NewPacket results: data and first layer type
	symMu         sync.Mutex
	tracked       []trackedObj // objects allocated by the function under verification (see restoreFrame)
	assumptions   []*Term
	obls          []*Obligation
	cur           *State
	entry         *State
	guard         *Term
	A0            *Term
	allocN        int
	top           *ssa.Function
	contract      *Contract
	warnings      map[string]bool
	trusted       map[string]bool
	inlined       map[string]bool
	unmodelled    map[string]bool
	pure          int
	inlineStack   []*ssa.Function
	idCount       map[string]int
	inputs        []inputVal // for models
	candDropped   map[string]bool
	epochN        int
	strict        bool // over-read obligations (bound slices by len, not cap)
	globals       map[*ssa.Global]*Term
	loopCount     int
	ufAxiomSeen   map[*Term]bool
	retVals       *SVal
	topFrame      *frame
	closedWorld   map[string]bool
	symMemo       map[*Term]map[*Term]bool
	niTerms       []*Term
	loopRefSyms   []*Term
	tiFacts       map[*Term]bool
	loopWindows   []*loopWindow
	splits        []*Term
	lastSendCtx   *SVal
	cryptOut      *Term
	cryptOff      *Term
	specPure      int
	cbc           map[*Term]*cbcGhost
	randDraws     int
	initMode      bool
	initAllocN    int
	seeded        bool
	topAssignLocs []assignLoc
	topAssignsSet bool
}

type inputVal struct {
	Name string
	V    *SVal
}

func newEncoder(w *World, fn *ssa.Function) *Encoder {
	e := &Encoder{w: w, c: NewCtx(), sorts: map[string]*Sort{}, top: fn, warnings: map[string]bool{}, trusted: map[string]bool{},
		inlined: map[string]bool{}, unmodelled: map[string]bool{}, idCount: map[string]int{},
		candDropped: map[string]bool{}, strict: true, closedWorld: map[string]bool{}, tiFacts: map[*Term]bool{}, globals: map[*ssa.Global]*Term{}, ufAxiomSeen: map[*Term]bool{}}
	e.A0 = e.c.Sym("A0", IntS)
	e.assumptions = append(e.assumptions, e.c.IntLe(e.c.Int(0), e.A0))
	e.guard = e.c.True()
	e.contract = w.Contracts[fn]
	return e
}

func (e *Encoder) subsetWarn(s string) { e.warnings[s] = true }

func (e *Encoder) assumeFact(t *Term) {
	if t.IsTrue() {
		return
	}
	e.assumptions = append(e.assumptions, t)
}

// assume under the current path condition
func (e *Encoder) assume(t *Term) {
	if e.specPure > 0 {
		// inside a spec function evaluated from a contract: nothing was checked, so nothing may be assumed
		return
	}
	e.assumeFact(e.c.Implies(e.guard, t))
}

func (e *Encoder) oblige(kind, anchor, desc string, goal *Term, pos token.Pos) *Obligation {
	if e.pure > 0 {
		return nil
	}
	if goal.IsTrue() {
		// trivially discharged by the simplifier: still count it
	}
	e.closeAxioms(goal)
	base := e.fnLabel() + ":" + kind + ":" + anchor
	n := e.idCount[base]
	e.idCount[base] = n + 1
	id := base
	if n > 0 {
		id = fmt.Sprintf("%s#%d", base, n)
	}
	o := &Obligation{ID: id, Kind: kind, Fn: e.w.funcDisplay(e.top), Desc: desc, Guard: e.guard, Goal: goal, NAssume: len(e.assumptions), Cand: -1}
	if pos.IsValid() {
		o.Pos = e.w.Fset.Position(pos)
	}
	if e.contract != nil {
		o.Props = e.contract.Props
	}
	e.obls = append(e.obls, o)
	return o
}

func (e *Encoder) fnLabel() string {
	s := e.w.funcDisplay(e.top)
	for _, f := range e.inlineStack {
		s += ">" + shortFn(f)
	}
	return s
}

func shortFn(f *ssa.Function) string {
	n := f.Name()
	if f.Signature.Recv() != nil {
		rt := f.Signature.Recv().Type()
		if p, ok := rt.(*types.Pointer); ok {
			rt = p.Elem()
		}
		if nt, ok := rt.(*types.Named); ok {
			return nt.Obj().Name() + "." + n
		}
	}
	return n
}

func (e *Encoder) newAlloc() *Term {
	if e.initMode {
		e.initAllocN++
		return e.c.Root(e.c.Int(-100000 - int64(e.initAllocN)))
	}
	r := e.c.Root(e.c.IntAdd(e.A0, e.c.Int(int64(e.allocN))))
	e.allocN++
	// allocation sites inside a loop are reused by every iteration in this encoding; a new
	// object is nevertheless distinct from every reference carried into the iteration
	for _, s := range e.loopRefSyms {
		e.assumeFact(e.c.Not(e.c.Eq(r, s)))
	}
	return r
}

// ---- frames ---------------------------------------------------------------

type ret struct {
	reach *Term
	val   *SVal
	st    *State
	pos   token.Pos
}

type frame struct {
	fn       *ssa.Function
	vals     map[ssa.Value]*SVal
	reach    map[*ssa.BasicBlock]*Term
	out      map[*ssa.BasicBlock]*State
	edge     map[[2]int]*Term
	rets     []ret
	defers   []*ssa.Defer
	back     map[[2]int]bool
	loops    map[*ssa.BasicBlock]*loopInfo
	order    []*ssa.BasicBlock
	exprOf   map[ssa.Value]ast.Expr
	contract *Contract
	isTop    bool
	loopIdx  map[*ssa.BasicBlock]int
	dry      int
	lsyms    map[*loopInfo]*loopSyms
	posNode  map[token.Pos]ast.Node
	entryG   *Term
	entrySt  *State
	bindings []*SVal
}

type loopInfo struct {
	header      *ssa.BasicBlock
	body        map[*ssa.BasicBlock]bool
	phis        []*ssa.Phi
	phiVals     map[*ssa.Phi]*SVal // havocked values at header
	stH         *State
	reachH      *Term
	invs        []*invariant
	variant     *Term
	varDesc     string
	autoVariant *Term
	autoVarDesc string
	idx         int
	initMap     map[*Term]*Term // header symbols -> values on entry to the loop (for atentry())
}

type invariant struct {
	tag   string
	text  string
	term  *Term
	cand  string // "" for user-provided
	props []string
}

func (e *Encoder) newFrame(fn *ssa.Function) *frame {
	fr := &frame{fn: fn, vals: map[ssa.Value]*SVal{}, reach: map[*ssa.BasicBlock]*Term{}, out: map[*ssa.BasicBlock]*State{},
		edge: map[[2]int]*Term{}, back: map[[2]int]bool{}, loops: map[*ssa.BasicBlock]*loopInfo{}, exprOf: map[ssa.Value]ast.Expr{},
		loopIdx: map[*ssa.BasicBlock]int{}}
	fr.contract = e.w.Contracts[fn]
	// back edges and RPO over forward edges
	seen := map[*ssa.BasicBlock]bool{}
	var post []*ssa.BasicBlock
	var dfs func(b *ssa.BasicBlock)
	dfs = func(b *ssa.BasicBlock) {
		seen[b] = true
		for _, s := range b.Succs {
			if s.Dominates(b) {
				fr.back[[2]int{b.Index, s.Index}] = true
				continue
			}
			if !seen[s] {
				dfs(s)
			}
		}
		post = append(post, b)
	}
	if len(fn.Blocks) > 0 {
		dfs(fn.Blocks[0])
	}
	for i := len(post) - 1; i >= 0; i-- {
		fr.order = append(fr.order, post[i])
	}
	// natural loops
	for be := range fr.back {
		u, h := fn.Blocks[be[0]], fn.Blocks[be[1]]
		li := fr.loops[h]
		if li == nil {
			li = &loopInfo{header: h, body: map[*ssa.BasicBlock]bool{h: true}}
			fr.loops[h] = li
		}
		var stack []*ssa.BasicBlock
		if !li.body[u] {
			li.body[u] = true
			stack = append(stack, u)
		}
		for len(stack) > 0 {
			b := stack[len(stack)-1]
			stack = stack[:len(stack)-1]
			for _, p := range b.Preds {
				if !li.body[p] {
					li.body[p] = true
					stack = append(stack, p)
				}
			}
		}
	}
	k := 0
	for _, b := range fr.order {
		if li := fr.loops[b]; li != nil {
			li.idx = k
			fr.loopIdx[b] = k
			k++
			for _, in := range b.Instrs {
				if p, ok := in.(*ssa.Phi); ok {
					li.phis = append(li.phis, p)
				}
			}
		}
	}
	for _, b := range fn.Blocks {
		for _, in := range b.Instrs {
			if d, ok := in.(*ssa.DebugRef); ok && !d.IsAddr {
				if _, have := fr.exprOf[d.X]; !have {
					fr.exprOf[d.X] = d.Expr
				}
			}
		}
	}
	return fr
}

func (e *Encoder) exprText(x ast.Node) string {
	if x == nil {
		return ""
	}
	var sb strings.Builder
	printer.Fprint(&sb, e.w.Fset, x)
	s := strings.Join(strings.Fields(sb.String()), " ")
	if len(s) > 80 {
		s = s[:80]
	}
	return s
}

// anchorFor returns a normalised source text for the instruction computing v.
func (fr *frame) anchorFor(e *Encoder, v ssa.Value, fallback string) string {
	if in, ok := v.(ssa.Instruction); ok && in.Pos().IsValid() {
		if n := nodeAt(e, fr, in.Pos()); n != nil {
			return e.exprText(n)
		}
	}
	if x, ok := fr.exprOf[v]; ok {
		return e.exprText(x)
	}
	return fallback
}

// ---- running a function body ---------------------------------------------------

// run executes fn symbolically from state st under guard g and returns the
// merged result value, final state and the condition under which it returns.
func (e *Encoder) run(fr *frame, args []*SVal, g *Term, st *State) (*SVal, *State, *Term) {
	fn := fr.fn
	c := e.c
	if len(fn.Blocks) == 0 {
		panic("run: function without body " + fn.String())
	}
	for i, p := range fn.Params {
		if i < len(args) {
			v := args[i]
			fr.vals[p] = v
		}
	}
	savedGuard := e.guard
	defer func() { e.guard = savedGuard }()
	fr.entryG, fr.entrySt = g, st
	for i, fv := range fn.FreeVars {
		if i < len(fr.bindings) {
			fr.vals[fv] = fr.bindings[i]
		}
	}
	for _, b := range fr.order {
		if !e.enterBlock(fr, b) {
			continue
		}
		e.execBlock(fr, b, false)
	}
	// merge returns
	if len(fr.rets) == 0 {
		return nil, st, c.False()
	}
	var rv *SVal
	var conds []*Term
	var states []*State
	for i := len(fr.rets) - 1; i >= 0; i-- {
		r := fr.rets[i]
		conds = append(conds, r.reach)
		states = append(states, r.st)
		if rv == nil {
			rv = r.val
		} else if r.val != nil {
			rv = e.iteVal(r.reach, r.val, rv)
		}
	}
	// mergeStates takes conds in order with last as default
	for i, j := 0, len(conds)-1; i < j; i, j = i+1, j-1 {
		conds[i], conds[j] = conds[j], conds[i]
		states[i], states[j] = states[j], states[i]
	}
	return rv, e.mergeStates(conds, states), c.Or(conds...)
}

// enterBlock computes the path condition and the incoming state of block b.
func (e *Encoder) enterBlock(fr *frame, b *ssa.BasicBlock) bool {
	c := e.c
	var reach *Term
	var stIn *State
	if b.Index == 0 {
		reach = fr.entryG
		stIn = fr.entrySt.clone()
	} else {
		var conds []*Term
		var states []*State
		for _, p := range b.Preds {
			if fr.back[[2]int{p.Index, b.Index}] {
				continue
			}
			ec, ok := fr.edge[[2]int{p.Index, b.Index}]
			if !ok {
				continue
			}
			conds = append(conds, ec)
			states = append(states, fr.out[p])
		}
		if len(conds) == 0 {
			fr.reach[b] = c.False()
			fr.out[b] = fr.entrySt.clone()
			return false
		}
		reach = c.Or(conds...)
		stIn = e.mergeStates(conds, states)
	}
	fr.reach[b] = reach
	e.guard = reach
	e.cur = stIn
	return true
}

func (e *Encoder) execBlock(fr *frame, b *ssa.BasicBlock, dryHeader bool) {
	li := fr.loops[b]
	if li != nil && !dryHeader {
		e.loopHeader(fr, li, e.guard, e.cur)
	} else if li == nil {
		for _, in := range b.Instrs {
			p, ok := in.(*ssa.Phi)
			if !ok {
				break
			}
			var v *SVal
			first := true
			for k := len(b.Preds) - 1; k >= 0; k-- {
				pr := b.Preds[k]
				ec, ok := fr.edge[[2]int{pr.Index, b.Index}]
				if !ok || fr.back[[2]int{pr.Index, b.Index}] {
					continue
				}
				pv := e.coerce(e.val(fr, p.Edges[k]), p.Type())
				if first {
					v = pv
					first = false
				} else {
					v = e.iteVal(ec, pv, v)
				}
			}
			if v == nil {
				v = e.zero(p.Type())
			}
			fr.vals[p] = retype(v, p.Type())
		}
	}
	for _, in := range b.Instrs {
		if _, ok := in.(*ssa.Phi); ok {
			continue
		}
		e.instr(fr, b, in)
	}
	if li != nil && !dryHeader {
		e.inferVariant(fr, li)
	}
	fr.out[b] = e.cur
	for _, s := range b.Succs {
		if fr.back[[2]int{b.Index, s.Index}] {
			e.loopBackEdge(fr, fr.loops[s], b)
		}
	}
}

func retype(v *SVal, t types.Type) *SVal {
	if v.Typ == t || v.K == KStruct || v.K == KTuple {
		return v
	}
	n := *v
	n.Typ = t
	if n.K == KOpaque {
		return &n
	}
	return &n
}

func (e *Encoder) mergeStates(conds []*Term, states []*State) *State {
	if len(states) == 1 {
		return states[0].clone()
	}
	c := e.c
	res := &State{m: map[string]*Term{}, epoch: states[0].epoch}
	keys := map[string]bool{}
	mixed := false
	for _, s := range states {
		for k := range s.m {
			keys[k] = true
		}
		if s.epoch != states[0].epoch {
			mixed = true
		}
		if s.epoch > res.epoch {
			res.epoch = s.epoch
		}
	}
	if mixed {
		// some path havocked the heap: a class none of the states has touched yet would otherwise be
		// created lazily under the merged epoch and lose what the un-havocked paths know about it
		for k := range e.sorts {
			keys[k] = true
		}
	}
	var ks []string
	for k := range keys {
		ks = append(ks, k)
	}
	sort.Strings(ks)
	for _, k := range ks {
		srt := e.sorts[k]
		var t *Term
		for i := len(states) - 1; i >= 0; i-- {
			v := e.get(states[i], k, srt)
			if t == nil {
				t = v
			} else {
				t = c.Ite(conds[i], v, t)
			}
		}
		res.m[k] = t
	}
	return res
}

// ---- values ------------------------------------------------------------------------

func (e *Encoder) val(fr *frame, v ssa.Value) *SVal {
	if sv, ok := fr.vals[v]; ok {
		return sv
	}
	c := e.c
	switch x := v.(type) {
	case *ssa.Const:
		return e.constVal(x)
	case *ssa.Global:
		return e.ptrTo(e.globalAddr(x))
	case *ssa.Function:
		return &SVal{K: KFunc, Typ: x.Type(), Fn: x, Tag: e.fnTag(x), T: c.NilRef()}
	case *ssa.Builtin:
		return &SVal{K: KFunc, Typ: x.Type()}
	case *ssa.FreeVar:
		panic("unbound free variable " + x.Name() + " in " + fr.fn.String())
	case *ssa.Parameter:
		panic("unbound parameter " + x.Name() + " in " + fr.fn.String())
	}
	panic(fmt.Sprintf("val: no value for %s (%T) in %s", v.Name(), v, fr.fn))
}

func (e *Encoder) globalAddr(g *ssa.Global) *Addr {
	r, ok := e.globals[g]
	if !ok {
		r = e.c.Root(e.c.Int(-int64(len(e.globals)) - 1))
		e.globals[g] = r
	}
	pt := g.Type().(*types.Pointer).Elem()
	a := &Addr{Typ: pt, Ref: r}
	if !isAggregate(pt) {
		a.Prefix = "glob:" + typeKey(pt)
		a.Idx = r
	}
	return a
}

func (e *Encoder) constVal(x *ssa.Const) *SVal {
	c := e.c
	t := x.Type()
	if x.Value == nil {
		if b, ok := t.Underlying().(*types.Basic); ok && b.Kind() == types.UntypedNil {
			return &SVal{K: KOpaque, Typ: t, T: c.NilRef()}
		}
		return e.zero(t)
	}
	switch kindOf(t) {
	case KScalar:
		s := scalarSort(t)
		switch s.K {
		case SBool:
			return &SVal{K: KScalar, Typ: t, T: c.Bool(constant.BoolVal(x.Value))}
		case SReal:
			f, _ := constant.Float64Val(constant.ToFloat(x.Value))
			r := &SVal{K: KScalar, Typ: t, T: c.RealLit(realLit(f))}
			if f == float64(int64(f)) && f < 1e15 && f > -1e15 {
				r.Rat = &ratVal{Num: c.BVLit(uint64(int64(f)), 64), Den: 1}
			}
			return r
		}
		var u uint64
		if i, ok := constant.Int64Val(constant.ToInt(x.Value)); ok {
			u = uint64(i)
		} else if uu, ok := constant.Uint64Val(constant.ToInt(x.Value)); ok {
			u = uu
		}
		return &SVal{K: KScalar, Typ: t, T: c.BVLit(u, s.W)}
	case KString:
		s := constant.StringVal(x.Value)
		return e.stringConst(s, t)
	}
	panic("constVal: unsupported constant type " + t.String())
}

func realLit(f float64) string {
	s := fmt.Sprintf("%.17f", f)
	if f < 0 {
		return "(- " + s[1:] + ")"
	}
	return s
}

func (e *Encoder) stringConst(s string, t types.Type) *SVal {
	c := e.c
	// each literal gets its own object; contents are not modelled except length
	base := c.Sym("strlit."+fmt.Sprintf("%x", hashStr(s)), RefS)
	return &SVal{K: KString, Typ: t, Base: base, Off: c.BVLit(0, 64), Len: c.BVLit(uint64(len(s)), 64), Str: &s}
}

func hashStr(s string) uint32 {
	h := uint32(2166136261)
	for i := 0; i < len(s); i++ {
		h ^= uint32(s[i])
		h *= 16777619
	}
	return h
}

// ---- instructions ----------------------------------------------------------------

func (e *Encoder) instr(fr *frame, b *ssa.BasicBlock, in ssa.Instruction) {
	c := e.c
	switch x := in.(type) {
	case *ssa.DebugRef:
		return
	case *ssa.Alloc:
		ref := e.newAlloc()
		pt := x.Type().(*types.Pointer).Elem()
		a := e.cellAddr(ref, pt)
		e.store(e.cur, a, e.zero(pt))
		fr.vals[x] = e.ptrTo(a)
		if isBytesBuffer(pt) {
			// the zero value is an empty buffer: nothing written yet
			p := fr.vals[x].T
			for _, g := range []string{"ghost:bufwrites", "ghost:buflen"} {
				e.set(e.cur, g, e.c.Store(e.get(e.cur, g, Arr(RefS, BV64)), p, e.c.BVLit(0, 64)))
			}
		}
		if e.pure == 0 && len(e.loopRefSyms) == 0 {
			e.tracked = append(e.tracked, trackedObj{ref, pt})
		}
	case *ssa.FieldAddr:
		p := e.val(fr, x.X)
		e.nilCheck(fr, p, x.X, "field "+x.X.Name(), x.Pos())
		st := x.X.Type().Underlying().(*types.Pointer).Elem()
		base := e.aggRef(p)
		fr.vals[x] = e.ptrTo(e.fieldAddr(base, st, x.Field))
	case *ssa.Field:
		sv := e.val(fr, x.X)
		fr.vals[x] = sv.Fields[x.Field]
	case *ssa.IndexAddr:
		e.indexAddr(fr, x)
	case *ssa.Index:
		e.index(fr, x)
	case *ssa.Slice:
		e.slice(fr, x)
	case *ssa.UnOp:
		e.unop(fr, x)
	case *ssa.BinOp:
		fr.vals[x] = e.binop(fr, x)
	case *ssa.Store:
		p := e.val(fr, x.Addr)
		v := e.val(fr, x.Val)
		a := e.addrOf(p)
		v = e.coerce(v, a.Typ)
		e.frameCheck(fr, a, x.Pos())
		e.escapeCheck(v)
		e.atStore(fr, x, v)
		e.store(e.cur, a, v)
	case *ssa.Convert:
		fr.vals[x] = e.convert(fr, x)
	case *ssa.ChangeType:
		v := e.val(fr, x.X)
		fr.vals[x] = e.changeType(v, x.Type())
	case *ssa.ChangeInterface:
		v := *e.val(fr, x.X)
		v.Typ = x.Type()
		fr.vals[x] = &v
	case *ssa.MakeInterface:
		fr.vals[x] = e.makeInterface(e.val(fr, x.X), x.X.Type(), x.Type())
	case *ssa.Extract:
		t := e.val(fr, x.Tuple)
		fr.vals[x] = t.Fields[x.Index]
	case *ssa.Call:
		fr.vals[x] = e.call(fr, x)
	case *ssa.Defer:
		fr.defers = append(fr.defers, x)
	case *ssa.RunDefers:
		for i := len(fr.defers) - 1; i >= 0; i-- {
			e.call(fr, fr.defers[i])
		}
	case *ssa.MakeSlice:
		e.makeSlice(fr, x)
	case *ssa.MakeClosure:
		fn := x.Fn.(*ssa.Function)
		v := &SVal{K: KFunc, Typ: x.Type(), Fn: fn, Tag: e.fnTag(fn), T: e.newAlloc()}
		for _, bnd := range x.Bindings {
			v.Bind = append(v.Bind, e.val(fr, bnd))
		}
		fr.vals[x] = v
	case *ssa.MakeMap:
		fr.vals[x] = &SVal{K: KMap, Typ: x.Type(), T: e.newAlloc()}
		e.mapInit(fr, fr.vals[x])
	case *ssa.MapUpdate:
		e.mapUpdate(fr, x)
	case *ssa.Lookup:
		e.lookup(fr, x)
	case *ssa.TypeAssert:
		e.typeAssert(fr, x)
	case *ssa.Panic:
		e.oblige("panic", e.exprText(nodeAt(e, fr, x.Pos())), "explicit panic is unreachable", c.False(), x.Pos())
		// path ends
	case *ssa.If:
		cond := e.val(fr, x.Cond).T
		if e.pure == 0 {
			e.niTerms = append(e.niTerms, cond)
		}
		fr.edge[[2]int{b.Index, b.Succs[0].Index}] = c.And(e.guard, cond)
		fr.edge[[2]int{b.Index, b.Succs[1].Index}] = c.And(e.guard, c.Not(cond))
	case *ssa.Jump:
		fr.edge[[2]int{b.Index, b.Succs[0].Index}] = e.guard
	case *ssa.Return:
		var rv *SVal
		if len(x.Results) == 1 {
			rv = e.coerce(e.val(fr, x.Results[0]), fr.fn.Signature.Results().At(0).Type())
		} else if len(x.Results) > 1 {
			rv = &SVal{K: KTuple, Typ: fr.fn.Signature.Results()}
			for i, r := range x.Results {
				rv.Fields = append(rv.Fields, e.coerce(e.val(fr, r), fr.fn.Signature.Results().At(i).Type()))
			}
		}
		e.atReturn(fr, x)
		fr.rets = append(fr.rets, ret{reach: e.guard, val: rv, st: e.cur, pos: x.Pos()})
	case *ssa.Range:
		e.subsetWarn("range over map/string: iteration order abstracted")
		fr.vals[x] = &SVal{K: KOpaque, Typ: x.Type(), T: e.c.Fresh("range", RefS), Inner: e.val(fr, x.X)}
	case *ssa.Next:
		e.next(fr, x)
	default:
		e.subsetWarn(fmt.Sprintf("unsupported instruction %T", in))
		if v, ok := in.(ssa.Value); ok {
			fr.vals[v] = e.freshVal("unsup", v.Type())
		}
	}
}

func nodeAt(e *Encoder, fr *frame, pos token.Pos) ast.Node {
	if fr.posNode == nil {
		fr.posNode = map[token.Pos]ast.Node{}
		if syn := fr.fn.Syntax(); syn != nil {
			ast.Inspect(syn, func(n ast.Node) bool {
				switch x := n.(type) {
				case *ast.IndexExpr:
					fr.posNode[x.Lbrack] = x
				case *ast.SliceExpr:
					fr.posNode[x.Lbrack] = x
				case *ast.BinaryExpr:
					fr.posNode[x.OpPos] = x
				case *ast.CallExpr:
					fr.posNode[x.Lparen] = x
				case *ast.StarExpr:
					fr.posNode[x.Star] = x
				case *ast.UnaryExpr:
					fr.posNode[x.OpPos] = x
				case *ast.SelectorExpr:
					if _, ok := fr.posNode[x.Sel.Pos()]; !ok {
						fr.posNode[x.Sel.Pos()] = x
					}
				}
				return true
			})
		}
	}
	return fr.posNode[pos]
}

// coerce adapts untyped nil / kind mismatches when a value flows into a typed slot.
func (e *Encoder) coerce(v *SVal, t types.Type) *SVal {
	if v == nil {
		return e.zero(t)
	}
	if v.K == KOpaque && kindOf(t) != KOpaque {
		return e.zero(t)
	}
	return v
}

// aggRef returns the Ref of the aggregate a pointer points to.
func (e *Encoder) aggRef(p *SVal) *Term {
	if p.Addr != nil {
		return p.Addr.Ref
	}
	return p.T
}

func (e *Encoder) nilCheck(fr *frame, p *SVal, src ssa.Value, what string, pos token.Pos) {
	c := e.c
	ref := p.T
	if p.Addr != nil {
		ref = p.Addr.Ref
	}
	isNil := c.Eq(ref, c.NilRef())
	if isNil.IsFalse() {
		return
	}
	e.oblige("nil", fr.anchorFor(e, src, what), "nil pointer dereference", c.Not(isNil), pos)
	e.assume(c.Not(isNil))
}

func (e *Encoder) changeType(v *SVal, t types.Type) *SVal {
	n := *v
	n.Typ = t
	if v.K == KStruct {
		// layouts are identical; fields keep their own types
		return &n
	}
	if v.K == KPtr {
		n.Addr = nil
		if v.Addr != nil {
			a := *v.Addr
			a.Typ = t.Underlying().(*types.Pointer).Elem()
			n.Addr = &a
		}
	}
	return &n
}

func (e *Encoder) makeInterface(v *SVal, from types.Type, to types.Type) *SVal {
	c := e.c
	r := &SVal{K: KIface, Typ: to, Dyn: from, Inner: v}
	r.Tag = c.Int(int64(e.w.typeTag(from)))
	switch v.K {
	case KPtr:
		if v.Addr != nil && v.Addr.Leaf {
			e.subsetWarn("pointer to struct leaf boxed in an interface")
		}
		r.T = v.T
	case KMap, KOpaque:
		r.T = v.T
	default:
		ref := e.newAlloc()
		a := e.boxAddr(ref, from)
		e.store(e.cur, a, v)
		r.T = ref
	}
	return r
}

func (e *Encoder) escapeCheck(v *SVal) {
	if v.K == KPtr && v.Addr != nil && v.Addr.Leaf {
		e.subsetWarn("pointer to a struct leaf field stored to memory")
	}
}

func (e *Encoder) indexAddr(fr *frame, x *ssa.IndexAddr) {
	c := e.c
	xv := e.val(fr, x.X)
	iv := e.val(fr, x.Index)
	i := c.Resize(iv.T, 64, isSigned(x.Index.Type()))
	anchor := fr.anchorFor(e, x, x.X.Name()+"["+x.Index.Name()+"]")
	switch t := x.X.Type().Underlying().(type) {
	case *types.Slice:
		e.oblige("index", anchor, "index within length", c.BVCmp("bvult", i, xv.Len), x.Pos())
		e.assume(c.BVCmp("bvult", i, xv.Len))
		fr.vals[x] = e.ptrTo(e.elemAddr(xv.Base, c.BVBin("bvadd", xv.Off, i), t.Elem()))
	case *types.Pointer:
		at := t.Elem().Underlying().(*types.Array)
		e.nilCheck(fr, xv, x.X, "array", x.Pos())
		n := c.BVLit(uint64(at.Len()), 64)
		e.oblige("index", anchor, "index within array", c.BVCmp("bvult", i, n), x.Pos())
		e.assume(c.BVCmp("bvult", i, n))
		fr.vals[x] = e.ptrTo(e.elemAddr(e.aggRef(xv), i, at.Elem()))
	default:
		panic("indexAddr on " + x.X.Type().String())
	}
}

func (e *Encoder) index(fr *frame, x *ssa.Index) {
	c := e.c
	xv := e.val(fr, x.X)
	iv := e.val(fr, x.Index)
	i := c.Resize(iv.T, 64, isSigned(x.Index.Type()))
	anchor := fr.anchorFor(e, x, x.X.Name()+"["+x.Index.Name()+"]")
	switch t := x.X.Type().Underlying().(type) {
	case *types.Array:
		n := c.BVLit(uint64(t.Len()), 64)
		e.oblige("index", anchor, "index within array", c.BVCmp("bvult", i, n), x.Pos())
		e.assume(c.BVCmp("bvult", i, n))
		if xv.T != nil {
			fr.vals[x] = &SVal{K: KScalar, Typ: t.Elem(), T: c.Select(xv.T, i)}
		} else if i.IsLit() {
			fr.vals[x] = xv.Fields[i.V]
		} else {
			e.subsetWarn("symbolic index into array value of aggregates")
			fr.vals[x] = e.freshVal("idx", t.Elem())
		}
	default:
		// string index is ssa.Lookup; generic Index on slices does not occur
		panic("index on " + x.X.Type().String())
	}
}

func (e *Encoder) slice(fr *frame, x *ssa.Slice) {
	c := e.c
	xv := e.val(fr, x.X)
	anchor := fr.anchorFor(e, x, "slice "+x.X.Name())
	var base, off, ln, cp *Term
	isStr := false
	switch t := x.X.Type().Underlying().(type) {
	case *types.Slice:
		base, off, ln, cp = xv.Base, xv.Off, xv.Len, xv.Cap
	case *types.Basic:
		base, off, ln, cp = xv.Base, xv.Off, xv.Len, xv.Len
		isStr = true
	case *types.Pointer:
		at := t.Elem().Underlying().(*types.Array)
		e.nilCheck(fr, xv, x.X, "array", x.Pos())
		base, off = e.aggRef(xv), c.BVLit(0, 64)
		ln = c.BVLit(uint64(at.Len()), 64)
		cp = ln
	default:
		panic("slice of " + x.X.Type().String())
	}
	get := func(v ssa.Value, def *Term) *Term {
		if v == nil {
			return def
		}
		return c.Resize(e.val(fr, v).T, 64, isSigned(v.Type()))
	}
	lo := get(x.Low, c.BVLit(0, 64))
	hi := get(x.High, ln)
	mx := get(x.Max, cp)
	limit := cp
	desc := "slice bounds within capacity"
	if e.strictHere(fr) && x.Max == nil {
		limit = ln
		desc = "slice bounds within length (no over-read past the received data)"
	}
	var goal *Term
	if x.Max == nil {
		goal = c.And(c.BVCmp("bvule", lo, hi), c.BVCmp("bvule", hi, limit))
	} else {
		goal = c.And(c.BVCmp("bvule", lo, hi), c.BVCmp("bvule", hi, mx), c.BVCmp("bvule", mx, cp))
	}
	e.oblige("slice", anchor, desc, goal, x.Pos())
	e.assume(goal)
	r := &SVal{Typ: x.Type(), Base: base, Off: c.BVBin("bvadd", off, lo), Len: c.BVBin("bvsub", hi, lo)}
	if isStr {
		r.K = KString
	} else {
		r.K = KSlice
		r.Cap = c.BVBin("bvsub", mx, lo)
	}
	fr.vals[x] = r
}

// strictHere: over-read obligations apply to code of the module under
// verification, not to inlined dependency code (which legitimately reslices up to cap).
func (e *Encoder) strictHere(fr *frame) bool {
	if !e.strict {
		return false
	}
	if fr.fn.Pkg == nil || !strings.HasPrefix(fr.fn.Pkg.Pkg.Path(), modPath) {
		return false
	}
	if ct := e.w.Contracts[fr.fn]; ct != nil && ct.NoOverread {
		return false
	}
	return true
}

func (e *Encoder) makeSlice(fr *frame, x *ssa.MakeSlice) {
	c := e.c
	ln := c.Resize(e.val(fr, x.Len).T, 64, isSigned(x.Len.Type()))
	cp := c.Resize(e.val(fr, x.Cap).T, 64, isSigned(x.Cap.Type()))
	lim := c.BVLit(1<<maxLenBits, 64)
	goal := c.And(c.BVCmp("bvule", ln, cp), c.BVCmp("bvule", cp, lim))
	e.oblige("makeslice", fr.anchorFor(e, x, "make"), "make: 0 <= len <= cap (and below the modelling limit 2^40)", goal, x.Pos())
	e.assume(goal)
	ref := e.newAlloc()
	et := x.Type().Underlying().(*types.Slice).Elem()
	if cls := elemClass(et); cls != "" {
		s := scalarSort(et)
		arr := e.get(e.cur, cls, Arr(RefS, Arr(BV64, s)))
		z := e.zero(et).T
		e.set(e.cur, cls, c.Store(arr, ref, c.ConstArr(Arr(BV64, s), z)))
	} else {
		e.subsetWarn("make of slice with non-scalar elements: contents not zero-initialised in the model")
	}
	fr.vals[x] = &SVal{K: KSlice, Typ: x.Type(), Base: ref, Off: c.BVLit(0, 64), Len: ln, Cap: cp}
}

func (e *Encoder) unop(fr *frame, x *ssa.UnOp) {
	c := e.c
	v := e.val(fr, x.X)
	switch x.Op {
	case token.MUL:
		e.nilCheck(fr, v, x.X, "deref "+x.X.Name(), x.Pos())
		a := e.addrOf(v)
		fr.vals[x] = e.load(e.cur, a)
	case token.SUB:
		if v.T.S.K == SReal {
			fr.vals[x] = &SVal{K: KScalar, Typ: x.Type(), T: c.mk(&Term{Op: "-", Args: []*Term{v.T}, S: RealS})}
		} else {
			fr.vals[x] = &SVal{K: KScalar, Typ: x.Type(), T: c.BVNeg(v.T)}
		}
	case token.NOT:
		fr.vals[x] = &SVal{K: KScalar, Typ: x.Type(), T: c.Not(v.T)}
	case token.XOR:
		fr.vals[x] = &SVal{K: KScalar, Typ: x.Type(), T: c.BVNot(v.T)}
	default:
		e.subsetWarn("unsupported unary operator " + x.Op.String())
		fr.vals[x] = e.freshVal("unop", x.Type())
	}
}

func (e *Encoder) binop(fr *frame, x *ssa.BinOp) *SVal {
	a := e.val(fr, x.X)
	b := e.val(fr, x.Y)
	return e.binopVals(fr, x.Op, a, b, x.X.Type(), x.Y.Type(), x.Type(), fr.anchorFor(e, x, x.Name()), x.Pos())
}

func (e *Encoder) binopVals(fr *frame, op token.Token, a, b *SVal, ta, tb, tr types.Type, anchor string, pos token.Pos) *SVal {
	c := e.c
	mk := func(t *Term) *SVal { return &SVal{K: KScalar, Typ: tr, T: t} }
	switch op {
	case token.EQL:
		return mk(e.eqVal(a, b))
	case token.NEQ:
		return mk(c.Not(e.eqVal(a, b)))
	}
	if isString(ta) {
		if op == token.ADD {
			e.subsetWarn("string concatenation abstracted")
			return e.freshVal("concat", tr)
		}
		e.subsetWarn("string ordering abstracted")
		return e.freshVal("strcmp", tr)
	}
	if a.T == nil || b.T == nil {
		panic("binop on non-scalar " + op.String())
	}
	if a.T.S.K == SReal {
		if a.Rat != nil && b.Rat != nil && b.Rat.Num.IsLit() && b.Rat.Den == 1 && b.Rat.Num.SInt() > 0 && op == token.QUO {
			k := b.Rat.Num.SInt()
			if a.Rat.Den < (1<<50) && k < (1<<12) {
				r := mk(c.RealBin("/", a.T, b.T))
				r.Rat = &ratVal{Num: a.Rat.Num, Den: a.Rat.Den * k}
				return r
			}
		}
		switch op {
		case token.ADD:
			return mk(c.RealBin("+", a.T, b.T))
		case token.SUB:
			return mk(c.RealBin("-", a.T, b.T))
		case token.MUL:
			return mk(c.RealBin("*", a.T, b.T))
		case token.QUO:
			return mk(c.RealBin("/", a.T, b.T))
		case token.LSS:
			return mk(c.RealCmp("<", a.T, b.T))
		case token.LEQ:
			return mk(c.RealCmp("<=", a.T, b.T))
		case token.GTR:
			return mk(c.RealCmp(">", a.T, b.T))
		case token.GEQ:
			return mk(c.RealCmp(">=", a.T, b.T))
		}
		panic("real binop " + op.String())
	}
	if a.T.S.K == SBool {
		switch op {
		case token.AND, token.LAND:
			return mk(c.And(a.T, b.T))
		case token.OR, token.LOR:
			return mk(c.Or(a.T, b.T))
		case token.XOR:
			return mk(c.Not(c.Eq(a.T, b.T)))
		}
		panic("bool binop " + op.String())
	}
	sg := isSigned(ta)
	switch op {
	case token.ADD:
		return mk(c.BVBin("bvadd", a.T, b.T))
	case token.SUB:
		return mk(c.BVBin("bvsub", a.T, b.T))
	case token.MUL:
		return mk(c.BVBin("bvmul", a.T, b.T))
	case token.AND:
		return mk(c.BVBin("bvand", a.T, b.T))
	case token.OR:
		return mk(c.BVBin("bvor", a.T, b.T))
	case token.XOR:
		return mk(c.BVBin("bvxor", a.T, b.T))
	case token.AND_NOT:
		return mk(c.BVBin("bvand", a.T, c.BVNot(b.T)))
	case token.QUO, token.REM:
		nz := c.Not(c.Eq(b.T, c.BVLit(0, b.T.S.W)))
		if !nz.IsTrue() {
			e.oblige("div", anchor, "division by zero", nz, pos)
			e.assume(nz)
		}
		o := map[token.Token][2]string{token.QUO: {"bvudiv", "bvsdiv"}, token.REM: {"bvurem", "bvsrem"}}[op]
		if sg {
			return mk(c.BVBin(o[1], a.T, b.T))
		}
		return mk(c.BVBin(o[0], a.T, b.T))
	case token.SHL, token.SHR:
		w := a.T.S.W
		cnt := b.T
		if isSigned(tb) {
			nn := c.BVCmp("bvsle", c.BVLit(0, cnt.S.W), cnt)
			if !nn.IsTrue() {
				e.oblige("shift", anchor, "negative shift count", nn, pos)
				e.assume(nn)
			}
		}
		smtop := "bvshl"
		if op == token.SHR {
			smtop = "bvlshr"
			if sg {
				smtop = "bvashr"
			}
		}
		if cnt.S.W <= w {
			return mk(c.BVBin(smtop, a.T, c.ZeroExt(w-cnt.S.W, cnt)))
		}
		big := c.BVCmp("bvule", c.BVLit(uint64(w), cnt.S.W), cnt)
		sh := c.BVBin(smtop, a.T, c.Extract(w-1, 0, cnt))
		over := c.BVLit(0, w)
		if smtop == "bvashr" {
			over = c.BVBin("bvashr", a.T, c.BVLit(uint64(w-1), w))
		}
		return mk(c.Ite(big, over, sh))
	case token.LSS, token.LEQ, token.GTR, token.GEQ:
		x, y := a.T, b.T
		if op == token.GTR || op == token.GEQ {
			x, y = y, x
		}
		strict := op == token.LSS || op == token.GTR
		name := "bvu"
		if sg {
			name = "bvs"
		}
		if strict {
			name += "lt"
		} else {
			name += "le"
		}
		return mk(c.BVCmp(name, x, y))
	}
	panic("binop " + op.String())
}

func (e *Encoder) convert(fr *frame, x *ssa.Convert) *SVal {
	c := e.c
	v := e.val(fr, x.X)
	from, to := x.X.Type(), x.Type()
	switch {
	case kindOf(from) == KScalar && kindOf(to) == KScalar:
		fs, ts := scalarSort(from), scalarSort(to)
		switch {
		case fs.K == SBV && ts.K == SBV:
			return &SVal{K: KScalar, Typ: to, T: c.Resize(v.T, ts.W, isSigned(from))}
		case fs.K == SBV && ts.K == SReal:
			return e.intToFloat(fr, v, from, to, fr.anchorFor(e, x, x.Name()), x.Pos())
		case fs.K == SReal && ts.K == SBV:
			return e.floatToInt(v, to)
		case fs.K == SReal && ts.K == SReal:
			return &SVal{K: KScalar, Typ: to, T: v.T, Rat: v.Rat}
		}
	case kindOf(from) == KString && kindOf(to) == KSlice:
		// []byte(s): fresh object with the same contents at the same offsets
		ref := e.newAlloc()
		smem := e.get(e.cur, "mem:str", Arr(RefS, Arr(BV64, BV8)))
		mem := e.get(e.cur, "mem:bv8", Arr(RefS, Arr(BV64, BV8)))
		e.set(e.cur, "mem:bv8", c.Store(mem, ref, c.Select(smem, v.Base)))
		return &SVal{K: KSlice, Typ: to, Base: ref, Off: v.Off, Len: v.Len, Cap: v.Len}
	case kindOf(from) == KSlice && kindOf(to) == KString && elemClass(from.Underlying().(*types.Slice).Elem()) == "mem:bv8":
		ref := e.newAlloc()
		mem := e.get(e.cur, "mem:bv8", Arr(RefS, Arr(BV64, BV8)))
		smem := e.get(e.cur, "mem:str", Arr(RefS, Arr(BV64, BV8)))
		e.set(e.cur, "mem:str", c.Store(smem, ref, c.Select(mem, v.Base)))
		return &SVal{K: KString, Typ: to, Base: ref, Off: v.Off, Len: v.Len}
	case kindOf(from) == KPtr && kindOf(to) == KPtr, kindOf(from) == KString && kindOf(to) == KString:
		return e.changeType(v, to)
	case kindOf(from) == KSlice && kindOf(to) == KString && elemClass(from.Underlying().(*types.Slice).Elem()) == "mem:bv32":
		// string([]rune): UTF-8 encoding. Modelled exactly for ASCII contents (one byte per rune);
		// otherwise only the length bound is known.
		ref := e.newAlloc()
		L := c.Fresh("runestr.len", BV64)
		A := c.Fresh("runestr", Arr(BV64, BV8))
		rmem := e.get(e.cur, "mem:bv32", Arr(RefS, Arr(BV64, BV(32))))
		ra := c.Select(rmem, v.Base)
		k := c.Bound("k", BV64)
		inr := c.BVCmp("bvult", k, v.Len)
		rk := c.Select(ra, c.BVBin("bvadd", v.Off, k))
		allASCII := c.Forall([]*Term{k}, c.Implies(inr, c.BVCmp("bvult", rk, c.BVLit(0x80, 32))))
		k2 := c.Bound("k", BV64)
		rk2 := c.Select(ra, c.BVBin("bvadd", v.Off, k2))
		same := c.Forall([]*Term{k2}, c.Implies(c.BVCmp("bvult", k2, v.Len), c.Eq(c.Select(A, k2), c.Extract(7, 0, rk2))))
		e.assumeFact(c.Implies(allASCII, c.And(c.Eq(L, v.Len), same)))
		e.assumeFact(c.BVCmp("bvule", L, c.BVBin("bvmul", v.Len, c.BVLit(4, 64))))
		mem := e.get(e.cur, "mem:str", Arr(RefS, Arr(BV64, BV8)))
		e.set(e.cur, "mem:str", c.Store(mem, ref, A))
		e.trusted["string([]rune) is the identity on ASCII code points (UTF-8)"] = true
		return &SVal{K: KString, Typ: to, Base: ref, Off: c.BVLit(0, 64), Len: L}
	}
	e.subsetWarn("unsupported conversion " + from.String() + " -> " + to.String())
	return e.freshVal("conv", to)
}

func (e *Encoder) bvToReal(t *Term, signed bool) *Term {
	c := e.c
	if t.Op == "bv" {
		if signed {
			return c.RealLit(realLit(float64(t.SInt())))
		}
		return c.RealLit(realLit(float64(t.V)))
	}
	nat := c.mk(&Term{Op: "bv2nat", Args: []*Term{t}, S: IntS})
	var iv *Term = nat
	if signed {
		w := t.S.W
		neg := c.BVCmp("bvslt", t, c.BVLit(0, w))
		pow := c.mk(&Term{Op: "int", V: uint64(1) << uint(w), S: IntS})
		if w >= 63 {
			// 2^64 does not fit: build as 2^32*2^32
			p32 := c.Int(1 << 32)
			pow = c.mk(&Term{Op: "*", Args: []*Term{p32, p32}, S: IntS})
		}
		iv = c.Ite(neg, c.mk(&Term{Op: "-", Args: []*Term{nat, pow}, S: IntS}), nat)
	}
	return c.mk(&Term{Op: "to_real", Args: []*Term{iv}, S: RealS})
}

func (e *Encoder) realToBV(t *Term, w int, signed bool) *Term {
	c := e.c
	// Go truncates toward zero; out-of-range is implementation-defined: modelled via int2bv (wraps)
	fl := c.mk(&Term{Op: "to_int", Args: []*Term{t}, S: IntS})
	negfl := c.mk(&Term{Op: "to_int", Args: []*Term{c.mk(&Term{Op: "-", Args: []*Term{t}, S: RealS})}, S: IntS})
	isneg := c.RealCmp("<", t, c.RealLit("0.0"))
	tr := c.Ite(isneg, c.mk(&Term{Op: "-", Args: []*Term{negfl}, S: IntS}), fl)
	return c.mk(&Term{Op: "int2bv", Args: []*Term{tr}, I: w, S: BV(w)})
}

// ---- type assertion ------------------------------------------------------------------

func (e *Encoder) typeAssert(fr *frame, x *ssa.TypeAssert) {
	c := e.c
	v := e.val(fr, x.X)
	at := x.AssertedType
	if _, isIface := at.Underlying().(*types.Interface); isIface {
		// interface-to-interface assertion: succeeds iff dynamic type implements; abstracted
		ok := c.Fresh("assertok", BoolS)
		res := *v
		res.Typ = at
		if x.CommaOk {
			fr.vals[x] = &SVal{K: KTuple, Typ: x.Type(), Fields: []*SVal{&res, {K: KScalar, Typ: types.Typ[types.Bool], T: ok}}}
		} else {
			e.subsetWarn("interface-to-interface type assertion abstracted")
			fr.vals[x] = &res
		}
		return
	}
	tag := c.Int(int64(e.w.typeTag(at)))
	ok := c.Eq(v.Tag, tag)
	var res *SVal
	if kindOf(at) == KPtr {
		res = &SVal{K: KPtr, Typ: at, T: v.T}
	} else {
		res = e.load(e.cur, e.boxAddr(v.T, at))
	}
	if x.CommaOk {
		z := e.zero(at)
		fr.vals[x] = &SVal{K: KTuple, Typ: x.Type(), Fields: []*SVal{e.iteVal(ok, res, z), {K: KScalar, Typ: types.Typ[types.Bool], T: ok}}}
		return
	}
	e.oblige("typeassert", fr.anchorFor(e, x, "assert"), "type assertion holds", ok, x.Pos())
	e.assume(ok)
	fr.vals[x] = res
}

// ---- maps (minimal model: scalar / small-struct keys) -----------------------------------

func (e *Encoder) mapKeySort(kt types.Type) *Sort {
	if isScalarBasic(kt) {
		return scalarSort(kt)
	}
	if st, ok := kt.Underlying().(*types.Struct); ok {
		w := 0
		for i := 0; i < st.NumFields(); i++ {
			if !isScalarBasic(st.Field(i).Type()) {
				return nil
			}
			s := scalarSort(st.Field(i).Type())
			if s.K != SBV {
				return nil
			}
			w += s.W
		}
		if w > 0 && w <= 64 {
			return BV(w)
		}
	}
	return nil
}

func (e *Encoder) mapKeyTerm(k *SVal, kt types.Type) *Term {
	c := e.c
	if isScalarBasic(kt) {
		return k.T
	}
	var t *Term
	for _, f := range k.Fields {
		if t == nil {
			t = f.T
		} else {
			t = c.mk(&Term{Op: "concat", Args: []*Term{t, f.T}, S: BV(t.S.W + f.T.S.W)})
		}
	}
	return t
}

func (e *Encoder) mapClasses(mt *types.Map) (string, *Sort, bool) {
	ks := e.mapKeySort(mt.Key())
	if ks == nil {
		return "", nil, false
	}
	return "map:" + typeKey(mt.Key()) + ":" + typeKey(mt.Elem()), ks, true
}

func (e *Encoder) mapInit(fr *frame, m *SVal) {
	c := e.c
	mt := m.Typ.Underlying().(*types.Map)
	cls, ks, ok := e.mapClasses(mt)
	if !ok {
		return
	}
	has := e.get(e.cur, cls+"#has", Arr(RefS, Arr(ks, BoolS)))
	e.set(e.cur, cls+"#has", c.Store(has, m.T, c.ConstArr(Arr(ks, BoolS), c.False())))
}

func (e *Encoder) mapUpdate(fr *frame, x *ssa.MapUpdate) {
	c := e.c
	m := e.val(fr, x.Map)
	mt := x.Map.Type().Underlying().(*types.Map)
	cls, ks, ok := e.mapClasses(mt)
	if !ok || isAggregate(mt.Elem()) && kindOf(mt.Elem()) != KStruct {
		e.subsetWarn("map update with unmodelled key/value type " + mt.String())
		return
	}
	if e.pure == 0 && len(e.inlineStack) == 0 && e.contract != nil {
		// "at mapupdate assert ...": arg(0) the map, arg(1) the key, arg(2) the value
		for _, cl := range e.contract.AtCalls {
			if cl.Callee != "mapupdate" || (cl.Slow && !thoroughTier) {
				continue
			}
			env := e.contractEnv(fr, e.contract, nil, e.cur, e.entry)
			env.callArgs = []*SVal{m, e.val(fr, x.Key), e.val(fr, x.Value)}
			t := env.trClause(cl)
			tag := cl.Tag
			if tag == "" {
				tag = "at.mapupdate"
			}
			if o := e.oblige("atcall", tag, "at the map update: "+cl.Text, t, x.Pos()); o != nil {
				o.Props = propsOfTag(cl.Tag, e.contract.Props)
			}
			e.assume(t)
		}
	}
	k := e.mapKeyTerm(e.val(fr, x.Key), mt.Key())
	has := e.get(e.cur, cls+"#has", Arr(RefS, Arr(ks, BoolS)))
	e.set(e.cur, cls+"#has", c.Store(has, m.T, c.Store(c.Select(has, m.T), k, c.True())))
	v := e.coerce(e.val(fr, x.Value), mt.Elem())
	e.mapStoreVal(cls, ks, m.T, k, mt.Elem(), v)
}

func (e *Encoder) mapStoreVal(cls string, ks *Sort, m, k *Term, vt types.Type, v *SVal) {
	c := e.c
	if st, ok := vt.Underlying().(*types.Struct); ok {
		for i := 0; i < st.NumFields(); i++ {
			e.mapStoreVal(cls+"."+st.Field(i).Name(), ks, m, k, st.Field(i).Type(), v.Fields[i])
		}
		return
	}
	if isAggregate(vt) {
		e.subsetWarn("map value of array type not modelled")
		return
	}
	cs := leafComps(vt)
	vs := v.comps()
	for j, cp := range cs {
		arr := e.get(e.cur, cls+"#val"+cp.suffix, Arr(RefS, Arr(ks, cp.sort)))
		e.set(e.cur, cls+"#val"+cp.suffix, c.Store(arr, m, c.Store(c.Select(arr, m), k, vs[j])))
	}
}

func (e *Encoder) mapLoadVal(cls string, ks *Sort, m, k *Term, vt types.Type) *SVal {
	c := e.c
	if st, ok := vt.Underlying().(*types.Struct); ok {
		v := &SVal{K: KStruct, Typ: vt}
		for i := 0; i < st.NumFields(); i++ {
			v.Fields = append(v.Fields, e.mapLoadVal(cls+"."+st.Field(i).Name(), ks, m, k, st.Field(i).Type()))
		}
		return v
	}
	if isAggregate(vt) {
		return e.freshVal("mapval", vt)
	}
	cs := leafComps(vt)
	ts := make([]*Term, len(cs))
	for j, cp := range cs {
		arr := e.get(e.cur, cls+"#val"+cp.suffix, Arr(RefS, Arr(ks, cp.sort)))
		ts[j] = c.Select(c.Select(arr, m), k)
	}
	v := fromComps(vt, ts)
	e.typeInvariant(v)
	return v
}

func (e *Encoder) lookup(fr *frame, x *ssa.Lookup) {
	c := e.c
	xv := e.val(fr, x.X)
	if isString(x.X.Type()) {
		iv := e.val(fr, x.Index)
		i := c.Resize(iv.T, 64, isSigned(x.Index.Type()))
		e.oblige("index", fr.anchorFor(e, x, "strindex"), "string index within length", c.BVCmp("bvult", i, xv.Len), x.Pos())
		e.assume(c.BVCmp("bvult", i, xv.Len))
		mem := e.get(e.cur, "mem:str", Arr(RefS, Arr(BV64, BV8)))
		fr.vals[x] = &SVal{K: KScalar, Typ: x.Type(), T: c.Select(c.Select(mem, xv.Base), c.BVBin("bvadd", xv.Off, i))}
		return
	}
	mt := x.X.Type().Underlying().(*types.Map)
	cls, ks, ok := e.mapClasses(mt)
	var val *SVal
	var has *Term
	if !ok {
		e.subsetWarn("map lookup with unmodelled key type " + mt.String())
		val = e.freshVal("maplookup", mt.Elem())
		has = c.Fresh("maphas", BoolS)
	} else {
		k := e.mapKeyTerm(e.val(fr, x.Index), mt.Key())
		h := e.get(e.cur, cls+"#has", Arr(RefS, Arr(ks, BoolS)))
		has = c.Select(c.Select(h, xv.T), k)
		val = e.iteVal(has, e.mapLoadVal(cls, ks, xv.T, k, mt.Elem()), e.zero(mt.Elem()))
	}
	if x.CommaOk {
		fr.vals[x] = &SVal{K: KTuple, Typ: x.Type(), Fields: []*SVal{val, {K: KScalar, Typ: types.Typ[types.Bool], T: has}}}
	} else {
		fr.vals[x] = val
	}
}

func (e *Encoder) next(fr *frame, x *ssa.Next) {
	c := e.c
	tt := x.Type().(*types.Tuple)
	ok := c.Fresh("rangeok", BoolS)
	r := &SVal{K: KTuple, Typ: tt, Fields: []*SVal{{K: KScalar, Typ: types.Typ[types.Bool], T: ok}}}
	for i := 1; i < tt.Len(); i++ {
		t := tt.At(i).Type()
		if b, isb := t.(*types.Basic); isb && b.Kind() == types.Invalid {
			r.Fields = append(r.Fields, &SVal{K: KOpaque, Typ: t, T: c.NilRef()})
		} else {
			r.Fields = append(r.Fields, e.freshVal("rangeelem", t))
		}
	}
	fr.vals[x] = r
}

// intToFloat: float64(x). The value is kept as an exact rational; exactness
// of the conversion (|x| <= 2^53) is an obligation.
func (e *Encoder) intToFloat(fr *frame, v *SVal, from, to types.Type, anchor string, pos token.Pos) *SVal {
	c := e.c
	sg := isSigned(from)
	r := &SVal{K: KScalar, Typ: to, T: e.bvToReal(v.T, sg)}
	if v.T.S.W <= 64 {
		num := c.Resize(v.T, 64, sg)
		if v.T.S.W == 64 && !sg {
			// uint64 above 2^63 would be misread as negative
			ok := c.BVCmp("bvsle", c.BVLit(0, 64), num)
			if !ok.IsTrue() {
				e.oblige("floatexact", anchor, "integer to float64 conversion is exact", ok, pos)
				e.assume(ok)
			}
		}
		if v.T.S.W > 53 && !num.IsLit() {
			lim := c.BVLit(1<<53, 64)
			ok := c.And(c.BVCmp("bvsle", c.BVNeg(lim), num), c.BVCmp("bvsle", num, lim))
			e.oblige("floatexact", anchor, "integer to float64 conversion is exact (|x| <= 2^53)", ok, pos)
			e.assume(ok)
		}
		r.Rat = &ratVal{Num: num, Den: 1}
	}
	return r
}

// floatToInt: Go truncates toward zero.
func (e *Encoder) floatToInt(v *SVal, to types.Type) *SVal {
	c := e.c
	w := scalarSort(to).W
	if v.Rat != nil {
		q := v.Rat.Num
		if v.Rat.Den != 1 {
			q = c.BVBin("bvsdiv", v.Rat.Num, c.BVLit(uint64(v.Rat.Den), 64))
		}
		return &SVal{K: KScalar, Typ: to, T: c.Resize(q, w, true)}
	}
	return &SVal{K: KScalar, Typ: to, T: e.realToBV(v.T, w, isSigned(to))}
}

// ratFloor / ratCeil on an exact rational
func (e *Encoder) ratFloor(r *ratVal, ceil bool) *ratVal {
	c := e.c
	if r.Den == 1 {
		return r
	}
	d := c.BVLit(uint64(r.Den), 64)
	q := c.BVBin("bvsdiv", r.Num, d)
	rem := c.BVBin("bvsrem", r.Num, d)
	zero := c.BVLit(0, 64)
	if ceil {
		adj := c.Ite(c.BVCmp("bvslt", zero, rem), c.BVLit(1, 64), zero)
		return &ratVal{Num: c.BVBin("bvadd", q, adj), Den: 1}
	}
	adj := c.Ite(c.BVCmp("bvslt", rem, zero), c.BVLit(1, 64), zero)
	return &ratVal{Num: c.BVBin("bvsub", q, adj), Den: 1}
}

// atReturn evaluates "at return assert" / "at return#k assert" clauses at a return statement of the
// verified function (k: 1-based, source order): arg(i) is the i-th returned value and locals have
// the values they have at that statement.
func (e *Encoder) atReturn(fr *frame, x *ssa.Return) {
	if e.pure != 0 || len(e.inlineStack) != 0 || e.contract == nil || fr.fn != e.top {
		return
	}
	ord := 0
	for _, cl := range e.contract.AtCalls {
		if cl.Callee != "return" || (cl.Slow && !thoroughTier) {
			continue
		}
		if cl.Ordinal > 0 {
			if ord == 0 {
				var ps []token.Pos
				for _, b := range fr.fn.Blocks {
					for _, in := range b.Instrs {
						if r, ok := in.(*ssa.Return); ok {
							ps = append(ps, r.Pos())
						}
					}
				}
				sort.Slice(ps, func(i, j int) bool { return ps[i] < ps[j] })
				for i, p := range ps {
					if p == x.Pos() {
						ord = i + 1
					}
				}
			}
			if ord != cl.Ordinal {
				continue
			}
		}
		if err := e.w.parseClause(e.contract, cl); err != nil {
			panic(contractError{err})
		}
		if cl.Expr != nil && fr.fn.Pkg != nil && x.Pos().IsValid() {
			// the clause applies at the return statements where the variables it names are in scope
			if err := types.CheckExpr(e.w.Fset, fr.fn.Pkg.Pkg, x.Pos(), cl.Expr, nil); err != nil && strings.Contains(err.Error(), "undefined:") {
				continue
			}
		}
		env := e.contractEnv(fr, e.contract, nil, e.cur, e.entry)
		env.atInstr = x
		for _, r := range x.Results {
			env.callArgs = append(env.callArgs, e.val(fr, r))
		}
		t := env.trClause(cl)
		tag := cl.Tag
		if tag == "" {
			tag = "at.return"
		}
		if o := e.oblige("atcall", tag, "at the return statement: "+cl.Text, t, x.Pos()); o != nil {
			o.Props = propsOfTag(cl.Tag, e.contract.Props)
		}
		e.assume(t)
	}
}

func isBytesBuffer(t types.Type) bool {
	nt, ok := t.(*types.Named)
	return ok && nt.Obj().Pkg() != nil && nt.Obj().Pkg().Path() == "bytes" && nt.Obj().Name() == "Buffer"
}

// atStore evaluates "at store:<Field> assert" clauses just before an assignment to a struct field of
// that name in the verified function: arg(0) is the value being assigned, locals have the values
// they have at that statement.
func (e *Encoder) atStore(fr *frame, x *ssa.Store, v *SVal) {
	if e.pure != 0 || len(e.inlineStack) != 0 || e.contract == nil || fr.fn != e.top || len(e.contract.AtCalls) == 0 {
		return
	}
	fa, ok := x.Addr.(*ssa.FieldAddr)
	if !ok {
		return
	}
	pt, ok := fa.X.Type().Underlying().(*types.Pointer)
	if !ok {
		return
	}
	st, ok := pt.Elem().Underlying().(*types.Struct)
	if !ok {
		return
	}
	name := "store:" + st.Field(fa.Field).Name()
	for _, cl := range e.contract.AtCalls {
		if cl.Callee != name || (cl.Slow && !thoroughTier) {
			continue
		}
		if err := e.w.parseClause(e.contract, cl); err != nil {
			panic(contractError{err})
		}
		if cl.Expr != nil && fr.fn.Pkg != nil {
			// the clause applies where the variables it names are in scope
			if err := types.CheckExpr(e.w.Fset, fr.fn.Pkg.Pkg, x.Pos(), cl.Expr, nil); err != nil && strings.Contains(err.Error(), "undefined:") {
				continue
			}
		}
		env := e.contractEnv(fr, e.contract, nil, e.cur, e.entry)
		env.atInstr = x
		env.callArgs = []*SVal{v}
		t := env.trClause(cl)
		tag := cl.Tag
		if tag == "" {
			tag = "at." + name
		}
		if o := e.oblige("atcall", tag, "at the assignment to ."+st.Field(fa.Field).Name()+": "+cl.Text, t, x.Pos()); o != nil {
			o.Props = propsOfTag(cl.Tag, e.contract.Props)
		}
		e.assume(t)
	}
}
