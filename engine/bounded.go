package main

// Bounded stand-ins: functions whose contract is assumed (trusted) because the contract language
// cannot express the proof, checked instead by an exhaustive Go test up to a stated bound. They are
// reported separately in the evidence ("bounded_stand_ins"), never counted as discharged obligations.

import (
	"encoding/json"
	"fmt"
	"os"
	"os/exec"
	"path/filepath"
	"regexp"
	"strings"
	"time"
)

type boundedCheck struct {
	Prop     string
	File     string // under /verif/bounded
	PkgPath  string
	Function string
	Contract string
	Bound    string
}

var boundedChecks = []boundedCheck{
	{"C16", "C16_count_record_ids_test.go", modPath + "/pkg/dcmi", "(dcmi.sensorMap).CountRecordIDs",
		"result == mapLenSum(m): not negative, positive exactly when some entry is not empty, equal to the sum of the lengths",
		"every map over 4 entity IDs with each key absent, nil, empty or holding 1..3 record IDs (1296 maps)"},
}

func runBounded(w *World, prop string) (records []map[string]interface{}, violations []string) {
	for _, bc := range boundedChecks {
		if bc.Prop != prop {
			continue
		}
		t0 := time.Now()
		src := filepath.Join(verifDir, "bounded", bc.File)
		dir := filepath.Join(workDir, fmt.Sprintf("bounded%d", time.Now().UnixNano()))
		os.MkdirAll(dir, 0o755)
		pkgDir := filepath.Join(w.RepoDir, relPkgDir(bc.PkgPath))
		ov := map[string]map[string]string{"Replace": {filepath.Join(pkgDir, "zz_verif_bounded_test.go"): src}}
		ovb, _ := json.Marshal(ov)
		ovFile := filepath.Join(dir, "overlay.json")
		os.WriteFile(ovFile, ovb, 0o644)
		cmd := exec.Command("go", "test", "-overlay", ovFile, "-vet=off", "-timeout", "120s", "-count=1", "-run", "^TestVerifBounded$", "-v", ".")
		cmd.Dir = pkgDir
		cmd.Env = append(os.Environ(), "GOFLAGS=-mod=mod", "GOPROXY=off", "GOSUMDB=off", "GOTOOLCHAIN=local")
		out, _ := cmd.CombinedOutput()
		os.RemoveAll(dir)
		log := string(out)
		rec := map[string]interface{}{"function": bc.Function, "assumed_contract": bc.Contract, "bound": bc.Bound, "level": "bounded (not a proof)", "ms": time.Since(t0).Milliseconds()}
		if m := regexp.MustCompile(`BOUNDED-OK: cases=(\d+)`).FindStringSubmatch(log); m != nil && !strings.Contains(log, "BOUNDED-FAIL") {
			rec["result"] = "holds on all " + m[1] + " cases"
		} else {
			first := "the bounded test did not complete"
			for _, l := range strings.Split(log, "\n") {
				if strings.Contains(l, "BOUNDED-FAIL") {
					first = strings.TrimSpace(l)
					break
				}
			}
			rec["result"] = "FAILS: " + first
			p := filepath.Join(replayDir(prop), "bounded_"+strings.TrimSuffix(bc.File, ".go")+".go.txt")
			if len(log) > 3000 {
				log = log[:3000]
			}
			b, _ := os.ReadFile(src)
			writeTextFile(p, "// Replay record written by bmcvc.\n// property:   "+prop+"\n// obligation: bounded stand-in for the assumed contract of "+bc.Function+"\n// bound:      "+bc.Bound+"\n// result:     "+first+"\n//\n// go test output:\n"+commentOut(log)+"\n"+string(b))
			violations = append(violations, fmt.Sprintf("VIOLATION property=%s replay=%s", prop, p))
			fmt.Printf("  bounded stand-in for %s fails: %s\n", bc.Function, first)
		}
		records = append(records, rec)
	}
	return
}
