package main

// Trusted models of the dependencies used by the connection / session code of
// package bmc (gopacket layer chaining, transport, prometheus, context,
// back-off). Each use is recorded in the evidence as a trusted contract.

import (
	"fmt"
	"go/token"
	"go/types"
	"strconv"
	"strings"

	"golang.org/x/tools/go/ssa"
)

// serialiser-written fields per layer type (the only fields SerializeTo methods assign)
var layerWritten = map[string][]string{
	"*github.com/gebn/bmc/pkg/ipmi.Message":      {"Checksum1", "Checksum2"},
	"*github.com/gebn/bmc/pkg/ipmi.V2Session":    {"Length", "Pad", "Signature"},
	"*github.com/gebn/bmc/pkg/ipmi.V1Session":    {"Length"},
	"*github.com/gebn/bmc/pkg/ipmi.RAKPMessage3": {"AuthCode"},
}

func (e *Encoder) havocField(st *State, ref *Term, t types.Type, name string) {
	s, ok := t.Underlying().(*types.Struct)
	if !ok {
		return
	}
	for i := 0; i < s.NumFields(); i++ {
		if s.Field(i).Name() != name {
			continue
		}
		a := e.fieldAddr(ref, t, i)
		if isAggregate(a.Typ) {
			e.havocAgg(st, a.Ref, a.Typ)
		} else {
			e.havocLoc(st, assignLoc{prefix: a.Prefix, idx: a.Idx, typ: a.Typ, addr: a})
		}
	}
}

func (e *Encoder) havocClass(st *State, class string) {
	if srt, ok := e.sorts[class]; ok {
		st.m[class] = e.c.Fresh("hv."+class, srt)
	}
}

func (w *World) typeOfTag(tag int) types.Type {
	w.tagMu.Lock()
	defer w.tagMu.Unlock()
	if tag <= 0 || tag > len(w.tagTypes) {
		return nil
	}
	return w.tagTypes[tag-1]
}

func init() {
	nativeModels["github.com/google/gopacket.SerializeLayers"] = func(e *Encoder, fr *frame, args []*SVal, ci ssa.CallInstruction, resT types.Type) *SVal {
		c := e.c
		buf, layers := args[0], args[2]
		e.trusted["gopacket.SerializeLayers(buf, opts, l0..ln): clears buf and calls ln.SerializeTo .. l0.SerializeTo; besides the buffer and its bytes only the length / checksum / pad / signature fields of the layers change"] = true
		st := e.cur
		// buffer object and all byte memory
		if sb := e.sbufTypeOrNil(); sb != nil {
			e.havocAgg(st, buf.T, sb)
		}
		e.get(st, "mem:bv8", Arr(RefS, Arr(BV64, BV8)))
		e.havocClass(st, "mem:bv8")
		// layers passed (a varargs array filled by constant-index stores)
		if layers.Len.IsLit() && layers.Len.V <= 8 {
			for k := uint64(0); k < layers.Len.V; k++ {
				el := e.load(st, e.elemAddr(layers.Base, c.BVBin("bvadd", layers.Off, c.BVLit(k, 64)), layers.Typ.Underlying().(*types.Slice).Elem()))
				if el.Tag.Op != "int" {
					continue
				}
				T := e.w.typeOfTag(int(el.Tag.V))
				if T == nil {
					continue
				}
				for _, f := range layerWritten[T.String()] {
					e.havocField(st, el.T, T.Underlying().(*types.Pointer).Elem(), f)
				}
			}
		}
		// the buffer is a valid buffer again afterwards
		e.assume(e.bufValid(buf, st, 1<<36))
		return e.freshVal("serr", resT)
	}
	nativeModels["(transport.Transport).Send"] = func(e *Encoder, fr *frame, args []*SVal, ci ssa.CallInstruction, resT types.Type) *SVal {
		e.trusted["transport.Send(ctx, bytes): one write followed by one read bounded by ctx's deadline; returns the datagram (a window of its own receive buffer) or an error; touches no state of the caller"] = true
		r := e.freshResult("recv", resT)
		c := e.c
		// the reply is a fresh (to the caller) byte window of at most 512 bytes
		e.assumeFact(c.BVCmp("bvule", r.Fields[0].Len, c.BVLit(512, 64)))
		e.lastSendCtx = args[1]
		// ghost: number of datagrams handed to the transport
		g := e.get(e.cur, "ghost:sends", Arr(RefS, BV64))
		e.set(e.cur, "ghost:sends", c.Store(g, c.NilRef(), c.BVBin("bvadd", c.Select(g, c.NilRef()), c.BVLit(1, 64))))
		// ghost: did the last exchange fail (no reply, write error, ...)? Index (sub nilref 1) of the same class.
		failed := c.Ite(c.Eq(r.Fields[1].Tag, c.Int(0)), c.BVLit(0, 64), c.BVLit(1, 64))
		g = e.get(e.cur, "ghost:sends", Arr(RefS, BV64))
		e.set(e.cur, "ghost:sends", c.Store(g, c.Sub(c.NilRef(), 1), failed))
		return r
	}
	for _, n := range []string{"Inc", "Dec"} {
		n := n
		f := func(e *Encoder, fr *frame, args []*SVal, ci ssa.CallInstruction, resT types.Type) *SVal {
			c := e.c
			e.trusted["prometheus Counter/Gauge Inc/Dec change exactly that metric by one (goroutine-safe)"] = true
			d := uint64(1)
			if n == "Dec" {
				d = ^uint64(0)
			}
			if args[0].T.Op == "app" && args[0].T.Name == "metricChild" {
				// child of a vector: ghost:metricvec[vector][label]
				vec, lbl := args[0].T.Args[0], args[0].T.Args[1]
				arr := e.get(e.cur, "ghost:metricvec", Arr(RefS, Arr(RefS, BV64)))
				inner := c.Select(arr, vec)
				e.set(e.cur, "ghost:metricvec", c.Store(arr, vec, c.Store(inner, lbl, c.BVBin("bvadd", c.Select(inner, lbl), c.BVLit(d, 64)))))
				return &SVal{K: KTuple, Typ: resT}
			}
			arr := e.get(e.cur, "ghost:metric", Arr(RefS, BV64))
			e.set(e.cur, "ghost:metric", c.Store(arr, args[0].T, c.BVBin("bvadd", c.Select(arr, args[0].T), c.BVLit(d, 64))))
			return &SVal{K: KTuple, Typ: resT}
		}
		nativeModels["(prometheus.Counter)."+n] = f
		nativeModels["(prometheus.Gauge)."+n] = f
	}
	nativeModels["(*github.com/prometheus/client_golang/prometheus.CounterVec).WithLabelValues"] = func(e *Encoder, fr *frame, args []*SVal, ci ssa.CallInstruction, resT types.Type) *SVal {
		c := e.c
		e.trusted["CounterVec.WithLabelValues returns the child counter determined by the vector and the label values"] = true
		r := e.freshVal("child", resT)
		r.K = KIface
		lbl := c.NilRef()
		if len(args) > 1 && args[1].K == KSlice && args[1].Len.IsLit() && args[1].Len.V >= 1 {
			s0 := e.load(e.cur, e.elemAddr(args[1].Base, args[1].Off, types.Typ[types.String]))
			lbl = s0.Base
		}
		// the child's identity is a function of the vector and the label; children are counted in their own ghost class
		r.T = c.App("metricChild", RefS, args[0].T, lbl)
		e.assumeFact(c.Not(c.Eq(r.Tag, c.Int(0))))
		return r
	}
	nativeModels["(*github.com/prometheus/client_golang/prometheus.GaugeVec).WithLabelValues"] = nativeModels["(*github.com/prometheus/client_golang/prometheus.CounterVec).WithLabelValues"]
	nativeModels["github.com/prometheus/client_golang/prometheus.NewTimer"] = func(e *Encoder, fr *frame, args []*SVal, ci ssa.CallInstruction, resT types.Type) *SVal {
		r := e.freshVal("timer", resT)
		e.assumeFact(e.c.Not(e.c.Eq(r.T, e.c.NilRef())))
		return r
	}
	nativeModels["(*github.com/prometheus/client_golang/prometheus.Timer).ObserveDuration"] = func(e *Encoder, fr *frame, args []*SVal, ci ssa.CallInstruction, resT types.Type) *SVal {
		return e.freshResult("dur", resT)
	}
	nativeModels["context.WithTimeout"] = func(e *Encoder, fr *frame, args []*SVal, ci ssa.CallInstruction, resT types.Type) *SVal {
		c := e.c
		e.trusted["context.WithTimeout(p, d): the result has a deadline, not later than p's; it is done whenever p is"] = true
		tt := resT.(*types.Tuple)
		ctx := e.freshVal("ctx", tt.At(0).Type())
		e.assumeFact(c.Not(c.Eq(ctx.Tag, c.Int(0))))
		// ghost: ctxParent(child) == parent ; hasDeadline(child)
		e.assumeFact(c.Eq(c.App("ctxParent", RefS, ctx.T), args[0].T))
		e.assumeFact(c.App("ctxHasDeadline", BoolS, ctx.T))
		cancel := &SVal{K: KFunc, Typ: tt.At(1).Type(), Tag: c.Int(noopFuncTag), T: c.NilRef()}
		return &SVal{K: KTuple, Typ: resT, Fields: []*SVal{ctx, cancel}}
	}
	nativeModels["(v4.BackOff).Reset"] = func(e *Encoder, fr *frame, args []*SVal, ci ssa.CallInstruction, resT types.Type) *SVal {
		return &SVal{K: KTuple, Typ: resT}
	}
	nativeModels["github.com/cenkalti/backoff/v4.WithContext"] = func(e *Encoder, fr *frame, args []*SVal, ci ssa.CallInstruction, resT types.Type) *SVal {
		c := e.c
		r := e.freshVal("boctx", resT)
		e.assumeFact(c.Not(c.Eq(r.Tag, c.Int(0))))
		e.assumeFact(c.Eq(c.App("backoffCtx", RefS, r.T), args[1].T))
		return r
	}
	nativeModels["github.com/cenkalti/backoff/v4.Retry"] = func(e *Encoder, fr *frame, args []*SVal, ci ssa.CallInstruction, resT types.Type) *SVal {
		e.trusted["backoff.Retry(op, b): calls op one or more times, stops at the first nil result or when the wrapped context is done / the back-off stops; returns nil iff the last call did. The operation's own contract is verified separately; here everything it may touch is havocked"] = true
		op := args[0]
		if op.Fn != nil {
			if ct := e.w.Contracts[op.Fn]; ct != nil && e.pure == 0 {
				// the closure's precondition must hold when the loop is entered
				nf := e.newFrame(op.Fn)
				for i, fv := range op.Fn.FreeVars {
					if i < len(op.Bind) {
						nf.vals[fv] = op.Bind[i]
					}
				}
				env := e.contractEnv(nf, ct, nil, e.cur, e.cur)
				for i, cl := range ct.Requires {
					t := env.trClause(cl)
					tag := cl.Tag
					if tag == "" {
						tag = fmt.Sprintf("pre%d", i)
					}
					o := e.oblige("requires", "Retry:"+shortFn(op.Fn)+":"+tag, "precondition of the retried operation on entry to the retry loop: "+cl.Text, t, ci.Pos())
					if o != nil {
						o.Props = append(append([]string{}, o.Props...), propsOfTag(cl.Tag, nil)...)
					}
				}
			}
		}
		pre := e.cur
		e.havocAll()
		if op.Fn != nil {
			if ct := e.w.Contracts[op.Fn]; ct != nil {
				// state invariants of the retried operation: an ensures clause tagged [inv.*] that
				// mentions neither the result nor old() is required on entry (it is repeated as a
				// requires clause, checked above) and re-established by every call, so it holds
				// after any number of calls
				nf := e.newFrame(op.Fn)
				for i, fv := range op.Fn.FreeVars {
					if i < len(op.Bind) {
						nf.vals[fv] = op.Bind[i]
					}
				}
				for _, cl := range ct.Ensures {
					if strings.HasPrefix(cl.Tag, "keep.") {
						// a frame clause "nothing but ... changed" / "E == old(E)" is reflexive and transitive:
						// established by every call, it holds from the entry of the loop to its end
						e.restoreBindings(op, pre)
						env := e.contractEnv(nf, ct, nil, e.cur, pre)
						e.assume(env.trClause(cl))
						continue
					}
					if !strings.HasPrefix(cl.Tag, "inv.") || strings.Contains(cl.Text, "result") || strings.Contains(cl.Text, "old(") {
						continue
					}
					isReq := false
					for _, rq := range ct.Requires {
						if rq.Text == cl.Text {
							isReq = true
						}
					}
					if !isReq {
						continue
					}
					e.restoreBindings(op, pre)
					env := e.contractEnv(nf, ct, nil, e.cur, e.cur)
					e.assume(env.trClause(cl))
				}
			}
		}
		if op.Fn != nil {
			e.restoreBindings(op, pre)
		}
		rerr := e.freshVal("retryerr", resT)
		if op.Fn != nil {
			if ct := e.w.Contracts[op.Fn]; ct != nil {
				// Retry returns nil only if the last call of the operation did: what that call
				// guarantees for a nil result (clauses without old()) holds afterwards
				nf := e.newFrame(op.Fn)
				for i, fv := range op.Fn.FreeVars {
					if i < len(op.Bind) {
						nf.vals[fv] = op.Bind[i]
					}
				}
				for _, cl := range ct.Ensures {
					if strings.Contains(cl.Text, "old(") || strings.HasPrefix(cl.Tag, "keep.") || strings.HasPrefix(cl.Tag, "inv.") {
						continue
					}
					env := e.contractEnv(nf, ct, nil, e.cur, e.cur)
					env.result = e.zero(op.Fn.Signature.Results().At(0).Type())
					t, ok := func() (t *Term, ok bool) {
						defer func() {
							if r := recover(); r != nil {
								ok = false
							}
						}()
						return env.trClause(cl), true
					}()
					if ok {
						e.assume(e.c.Implies(e.c.Eq(rerr.Tag, e.c.Int(0)), t))
					}
				}
			}
		}
		return rerr
	}
	// bytes.Buffer: the frame, the number of Write calls and the number of bytes written are modelled
	// (ghost:bufwrites, ghost:buflen, keyed by the buffer object); Bytes returns a slice of that length
	// whose contents are not related to what was written (the concatenation itself is not modelled)
	nativeModels["(*bytes.Buffer).Write"] = func(e *Encoder, fr *frame, args []*SVal, ci ssa.CallInstruction, resT types.Type) *SVal {
		c := e.c
		e.trusted["(*bytes.Buffer).Write / Bytes: touch only the buffer object; Write appends all of its argument, Bytes returns as many bytes as were written (their contents are unconstrained: the concatenation is not modelled)"] = true
		bw := e.get(e.cur, "ghost:bufwrites", Arr(RefS, BV64))
		e.set(e.cur, "ghost:bufwrites", c.Store(bw, args[0].T, c.BVBin("bvadd", c.Select(bw, args[0].T), c.BVLit(1, 64))))
		bl := e.get(e.cur, "ghost:buflen", Arr(RefS, BV64))
		e.set(e.cur, "ghost:buflen", c.Store(bl, args[0].T, c.BVBin("bvadd", c.Select(bl, args[0].T), args[1].Len)))
		tt := resT.(*types.Tuple)
		return &SVal{K: KTuple, Typ: resT, Fields: []*SVal{{K: KScalar, Typ: tt.At(0).Type(), T: args[1].Len}, e.zero(tt.At(1).Type())}}
	}
	nativeModels["(*bytes.Buffer).Bytes"] = func(e *Encoder, fr *frame, args []*SVal, ci ssa.CallInstruction, resT types.Type) *SVal {
		e.trusted["(*bytes.Buffer).Write / Bytes: touch only the buffer object; Write appends all of its argument, Bytes returns as many bytes as were written (their contents are unconstrained: the concatenation is not modelled)"] = true
		r := e.freshVal("bufbytes", resT)
		e.typeInvariant(r)
		bl := e.get(e.cur, "ghost:buflen", Arr(RefS, BV64))
		e.assumeFact(e.c.Eq(r.Len, e.c.Select(bl, args[0].T)))
		return r
	}
	// gopacket layer metadata: pure, and never nil (every CanDecode in the module and in gopacket/layers
	// returns a LayerType value, which is a non-nil LayerClass)
	nativeModels["(gopacket.DecodingLayer).CanDecode"] = func(e *Encoder, fr *frame, args []*SVal, ci ssa.CallInstruction, resT types.Type) *SVal {
		e.trusted["DecodingLayer.CanDecode() / LayerClass.LayerTypes() have no side effects; CanDecode returns a non-nil LayerClass (every implementation returns a LayerType value)"] = true
		r := e.freshVal("layerclass", resT)
		e.assumeFact(e.c.Not(e.c.Eq(r.Tag, e.c.Int(0))))
		return r
	}
	nativeModels["(gopacket.LayerClass).LayerTypes"] = func(e *Encoder, fr *frame, args []*SVal, ci ssa.CallInstruction, resT types.Type) *SVal {
		e.trusted["DecodingLayer.CanDecode() / LayerClass.LayerTypes() have no side effects; CanDecode returns a non-nil LayerClass (every implementation returns a LayerType value)"] = true
		r := e.freshVal("layertypes", resT)
		e.typeInvariant(r)
		return r
	}
	nativeModels["(github.com/google/gopacket.DecodingLayerArray).Put"] = func(e *Encoder, fr *frame, args []*SVal, ci ssa.CallInstruction, resT types.Type) *SVal {
		// registers d under d.CanDecode().LayerTypes(): d must not be nil (method call on it); nothing
		// the caller can observe changes except the returned container
		c := e.c
		e.trusted["gopacket.DecodingLayerArray.Put(d): calls d.CanDecode() (so d must be non-nil), records d and returns a non-nil container; no other effect"] = true
		d := args[1]
		nz := c.Not(c.Eq(d.Tag, c.Int(0)))
		if !nz.IsTrue() {
			e.oblige("nil", fr.anchorFor(e, ci.Value(), "Put")+":d.CanDecode", "DecodingLayerArray.Put calls a method on its argument: it must not be a nil interface value", nz, ci.Pos())
			e.assume(nz)
		}
		r := e.freshVal("dlc", resT)
		e.assumeFact(c.Not(c.Eq(r.Tag, c.Int(0))))
		if t := e.w.lookupTypeByName("github.com/google/gopacket.DecodingLayerArray"); t != nil {
			r.Dyn = t
			e.assumeFact(c.Eq(r.Tag, c.Int(int64(e.w.typeTag(t)))))
		}
		return r
	}
	// A Session supplied by the caller: anything reachable from the arguments may change, except
	// that the request half of the command is only read (every request serialiser of the module
	// leaves its receiver unchanged; user-written commands are assumed to do the same).
	nativeModels["(bmc.Session).SendCommand"] = func(e *Encoder, fr *frame, args []*SVal, ci ssa.CallInstruction, resT types.Type) *SVal {
		e.unmodelled["(bmc.Session).SendCommand"] = true
		e.trusted["Session.SendCommand(ctx, c) may change anything reachable from its arguments except the request fields (c.Req) of the command, which are only read"] = true
		pre := e.cur
		e.havocAll()
		e.restoreFrame(fr, pre, args)
		if len(args) >= 3 {
			e.restoreRequest(pre, args[2])
		}
		return e.freshResult("ret.Session.SendCommand", resT)
	}
	// helper commands of a caller-supplied Session: as the module's own sessions do, they return a
	// response object of their own (non-nil, not touched by later calls) whenever they return no error
	for _, m := range []string{"ReserveSDRRepository", "GetSDRRepositoryInfo"} {
		m := m
		nativeModels["(bmc.Session)."+m] = func(e *Encoder, fr *frame, args []*SVal, ci ssa.CallInstruction, resT types.Type) *SVal {
			c := e.c
			e.unmodelled["(bmc.Session)."+m] = true
			e.trusted["Session."+m+"(ctx) returns a response object of its own (non-nil, not modified by later calls) whenever it returns no error, as the module's own sessions do"] = true
			pre := e.cur
			e.havocAll()
			e.restoreFrame(fr, pre, args)
			r := e.freshResult("ret.Session."+m, resT)
			if r.K == KTuple && len(r.Fields) == 2 && r.Fields[0].K == KPtr {
				obj := e.newAlloc()
				if pt, ok := r.Fields[0].Typ.Underlying().(*types.Pointer); ok && len(e.loopRefSyms) == 0 {
					e.tracked = append(e.tracked, trackedObj{obj, pt.Elem()})
				}
				e.assume(c.Implies(c.Eq(r.Fields[1].Tag, c.Int(0)), c.Eq(r.Fields[0].T, obj)))
			}
			return r
		}
	}
	// gopacket lazy packets, as walkSDRs uses them: NewPacket(data, first, opts) remembers data and the
	// first layer type; Packet.Layer(t), for t the first layer type, is nil or the value the decoder
	// registered for t produced from those bytes - the module registers LayerType<Name> with a
	// decoder that fills a new <Name> (pkg/ipmi/layer_types.go), whose own contract (C07) is applied.
	nativeModels["github.com/google/gopacket.NewPacket"] = func(e *Encoder, fr *frame, args []*SVal, ci ssa.CallInstruction, resT types.Type) *SVal {
		c := e.c
		e.trusted["gopacket.NewPacket / Packet.Layer(t): for the first layer type t of a packet, Layer(t) is nil or a new value of the struct registered for t, filled by that struct's DecodeFromBytes from the packet's bytes without error"] = true
		r := e.freshVal("packet", resT)
		r.T = e.newAlloc()
		if e.packets == nil {
			e.packets = map[*Term][2]*SVal{}
		}
		e.packets[r.T] = [2]*SVal{args[0], args[1]}
		_ = c
		return r
	}
	nativeModels["(gopacket.Packet).Layer"] = func(e *Encoder, fr *frame, args []*SVal, ci ssa.CallInstruction, resT types.Type) *SVal {
		c := e.c
		res := e.freshVal("layer", resT)
		info, ok := e.packets[args[0].T]
		if !ok {
			return res
		}
		data, first := info[0], info[1]
		want := args[1]
		ip := e.w.SSAPkgs[modPath+"/pkg/ipmi"]
		if ip == nil {
			return res
		}
		nonNil := c.Not(c.Eq(res.Tag, c.Int(0)))
		for _, name := range sortedStrKeys(ip.Members) {
			m := ip.Members[name]
			g, isG := m.(*ssa.Global)
			if !isG || !strings.HasPrefix(name, "LayerType") {
				continue
			}
			tn, _ := ip.Pkg.Scope().Lookup(strings.TrimPrefix(name, "LayerType")).(*types.TypeName)
			if tn == nil {
				continue
			}
			T := types.NewPointer(tn.Type())
			var dec *ssa.Function
			if ms := e.w.Prog.MethodSets.MethodSet(T); ms.Lookup(ip.Pkg, "DecodeFromBytes") == nil {
				continue
			}
			if dec = e.w.Prog.LookupMethod(T, ip.Pkg, "DecodeFromBytes"); dec == nil {
				continue
			}
			ct := e.w.Contracts[dec]
			if ct == nil || len(ct.Ensures) == 0 {
				continue
			}
			lt := e.load(e.cur, e.globalAddr(g))
			firstT := first.T
			if first.K == KIface {
				if first.Inner == nil || first.Inner.T == nil || first.Inner.T.S != lt.T.S {
					continue
				}
				firstT = first.Inner.T
			}
			if want.T == nil || want.T.S != lt.T.S {
				continue
			}
			is := c.And(c.Eq(want.T, lt.T), c.Eq(firstT, lt.T))
			if is.IsFalse() {
				continue
			}
			if !is.IsTrue() {
				continue // only syntactically known layer types are modelled
			}
			// the layer, if present, is a new object of that type holding the decoder's result
			obj := e.newAlloc()
			if len(e.loopRefSyms) == 0 {
				e.tracked = append(e.tracked, trackedObj{obj, tn.Type()})
			}
			ptr := &SVal{K: KPtr, Typ: T, T: obj}
			saved := e.guard
			e.guard = c.And(saved, nonNil)
			df := e.freshVal("df", dec.Params[2].Type())
			e.assumeFact(c.Not(c.Eq(df.Tag, c.Int(0))))
			rv := e.applyContract(fr, ct, []*SVal{ptr, data, df}, ci, dec.Signature.Results())
			e.guard = saved
			if rv != nil && rv.K == KIface {
				e.assume(c.Implies(nonNil, c.Eq(rv.Tag, c.Int(0)))) // decoded without error
			}
			e.assume(c.Implies(nonNil, c.And(c.Eq(res.Tag, c.Int(int64(e.w.typeTag(T)))), c.Eq(res.T, obj))))
		}
		return res
	}
	// ---- deadlines (C13): contexts and sockets ----
	nativeModels["(context.Context).Deadline"] = func(e *Encoder, fr *frame, args []*SVal, ci ssa.CallInstruction, resT types.Type) *SVal {
		c := e.c
		e.trusted["context.Context.Deadline() reports the context's deadline (an uninterpreted function of the context)"] = true
		tt := resT.(*types.Tuple)
		t := e.freshVal("deadline", tt.At(0).Type())
		sec, ns := e.timeParts(t)
		e.assumeFact(c.And(c.Eq(sec, c.App("ctxDeadlineSec", BV64, args[0].T)), c.Eq(ns, c.App("ctxDeadlineNsec", BV64, args[0].T))))
		ok := &SVal{K: KScalar, Typ: types.Typ[types.Bool], T: c.App("ctxHasDeadline", BoolS, args[0].T)}
		return &SVal{K: KTuple, Typ: resT, Fields: []*SVal{t, ok}}
	}
	for _, rw := range []string{"Write", "Read"} {
		rw := rw
		nativeModels["(*net.conn).Set"+rw+"Deadline"] = func(e *Encoder, fr *frame, args []*SVal, ci ssa.CallInstruction, resT types.Type) *SVal {
			c := e.c
			e.trusted["net.UDPConn.SetWriteDeadline / SetReadDeadline record the deadline of the socket (or fail); Write / ReadFromUDP touch only the socket and the buffer given"] = true
			sec, ns := e.timeParts(args[1])
			errv := e.freshVal("dlerr", resT)
			okc := c.Eq(errv.Tag, c.Int(0))
			for _, part := range []struct {
				n string
				v *Term
			}{{"sec", sec}, {"nsec", ns}} {
				cls := "ghost:deadline" + rw + "#" + part.n
				arr := e.get(e.cur, cls, Arr(RefS, BV64))
				e.set(e.cur, cls, c.Store(arr, args[0].T, c.Ite(okc, part.v, c.Select(arr, args[0].T))))
			}
			return errv
		}
	}
	nativeModels["(*net.conn).Write"] = func(e *Encoder, fr *frame, args []*SVal, ci ssa.CallInstruction, resT types.Type) *SVal {
		tt := resT.(*types.Tuple)
		n := e.freshVal("wrote", tt.At(0).Type())
		return &SVal{K: KTuple, Typ: resT, Fields: []*SVal{n, e.freshVal("werr", tt.At(1).Type())}}
	}
	nativeModels["(*net.UDPConn).ReadFromUDP"] = func(e *Encoder, fr *frame, args []*SVal, ci ssa.CallInstruction, resT types.Type) *SVal {
		c := e.c
		tt := resT.(*types.Tuple)
		b := args[1]
		n := e.freshVal("read", tt.At(0).Type())
		errv := e.freshVal("rerr", tt.At(2).Type())
		// on success 0 <= n <= len(b); the buffer's bytes are whatever arrived
		e.assumeFact(c.Implies(c.Eq(errv.Tag, c.Int(0)), c.And(c.BVCmp("bvsle", c.BVLit(0, 64), n.T), c.BVCmp("bvsle", n.T, b.Len))))
		mem := e.get(e.cur, "mem:bv8", Arr(RefS, Arr(BV64, BV8)))
		e.set(e.cur, "mem:bv8", c.Store(mem, b.Base, c.Fresh("datagram", Arr(BV64, BV8))))
		return &SVal{K: KTuple, Typ: resT, Fields: []*SVal{n, e.freshVal("raddr", tt.At(1).Type()), errv}}
	}
	for _, n := range []string{"time.Now", "time.Since", "(time.Time).Sub"} {
		n := n
		nativeModels[n] = func(e *Encoder, fr *frame, args []*SVal, ci ssa.CallInstruction, resT types.Type) *SVal {
			return e.freshResult("clock", resT)
		}
	}
	nativeModels["(prometheus.Observer).Observe"] = func(e *Encoder, fr *frame, args []*SVal, ci ssa.CallInstruction, resT types.Type) *SVal {
		return &SVal{K: KTuple, Typ: resT} // histograms are outside the metric ghost (C18 counts counters and gauges)
	}
	nativeModels["(prometheus.Histogram).Observe"] = nativeModels["(prometheus.Observer).Observe"]
	nativeModels["(context.Context).Err"] = func(e *Encoder, fr *frame, args []*SVal, ci ssa.CallInstruction, resT types.Type) *SVal {
		return e.freshVal("ctxerr", resT)
	}
}

// restoreRequest: the request half (field Req) of a command of known dynamic type keeps its value.
func (e *Encoder) restoreRequest(pre *State, cmd *SVal) {
	if cmd == nil || cmd.K != KIface || cmd.Dyn == nil {
		return
	}
	pt, ok := cmd.Dyn.Underlying().(*types.Pointer)
	if !ok {
		return
	}
	st, ok := pt.Elem().Underlying().(*types.Struct)
	if !ok {
		return
	}
	for i := 0; i < st.NumFields(); i++ {
		if st.Field(i).Name() != "Req" {
			continue
		}
		a := e.fieldAddr(cmd.T, pt.Elem(), i)
		e.store(e.cur, a, e.load(pre, a))
	}
}

// restoreBindings: a captured variable the operation only reads (no store
// through the free variable, not passed on to a nested closure) keeps its
// value across the calls: only the enclosing function and the closure can
// name the cell.
func (e *Encoder) restoreBindings(op *SVal, pre *State) {
	for i, fv := range op.Fn.FreeVars {
		if i >= len(op.Bind) || op.Bind[i] == nil || op.Bind[i].K != KPtr {
			continue
		}
		readOnly := fv.Referrers() != nil
		if readOnly {
			for _, ref := range *fv.Referrers() {
				if u, ok := ref.(*ssa.UnOp); !ok || u.Op != token.MUL {
					readOnly = false
				}
			}
		}
		if readOnly {
			a := e.addrOf(op.Bind[i])
			e.store(e.cur, a, e.load(pre, a))
		}
	}
}

func init() {
	// real-valued math functions: uninterpreted (equal arguments give equal results)
	// math.Pow with a constant small integer exponent is the product it stands for; with exponent 1/3
	// it is the cube root for non-negative arguments only (math.Pow returns NaN for a negative base
	// and a non-integer exponent); math.Cbrt is the real cube root.
	nativeModels["math.Pow"] = func(e *Encoder, fr *frame, args []*SVal, ci ssa.CallInstruction, resT types.Type) *SVal {
		c := e.c
		x, y := args[0].T, args[1].T
		mk := func(t *Term) *SVal { return &SVal{K: KScalar, Typ: types.Typ[types.Float64], T: t} }
		yv, isLit := realLitValue(y)
		switch {
		case isLit && yv == 2:
			return mk(c.RealBin("*", x, x))
		case isLit && yv == 3:
			return mk(c.RealBin("*", x, c.RealBin("*", x, x)))
		case isLit && yv == -1:
			e.trusted["math.Pow(x, -1) is 1/x (float64 treated as real arithmetic)"] = true
			return mk(c.RealBin("/", c.RealLit("1.0"), x))
		}
		e.trusted["math.Pow is an uninterpreted real function, except for the constant exponents 2, 3, -1 (products / quotient) and 1/3 (cube root of a non-negative base) (float64 treated as real arithmetic)"] = true
		r := c.App("math.Pow", RealS, x, y)
		if isLit && yv == 1./3 {
			e.assumeFact(c.Implies(c.RealCmp(">=", x, c.RealLit("0.0")), c.Eq(c.RealBin("*", r, c.RealBin("*", r, r)), x)))
		}
		return mk(r)
	}
	pureNative["math.Pow"] = true
	nativeModels["math.Cbrt"] = func(e *Encoder, fr *frame, args []*SVal, ci ssa.CallInstruction, resT types.Type) *SVal {
		c := e.c
		e.trusted["math.Cbrt(x) is the real cube root: Cbrt(x)^3 == x (float64 treated as real arithmetic)"] = true
		r := c.App("math.Cbrt", RealS, args[0].T)
		e.assumeFact(c.Eq(c.RealBin("*", r, c.RealBin("*", r, r)), args[0].T))
		return &SVal{K: KScalar, Typ: types.Typ[types.Float64], T: r}
	}
	pureNative["math.Cbrt"] = true
	for _, n := range []string{"Log", "Log10", "Log2", "Exp", "Exp2", "Sqrt"} {
		n := n
		nativeModels["math."+n] = func(e *Encoder, fr *frame, args []*SVal, ci ssa.CallInstruction, resT types.Type) *SVal {
			e.trusted["math."+n+" is an uninterpreted real function (float64 treated as real arithmetic)"] = true
			var ts []*Term
			for _, a := range args {
				ts = append(ts, a.T)
			}
			return &SVal{K: KScalar, Typ: types.Typ[types.Float64], T: e.c.App("math."+n, RealS, ts...)}
		}
		pureNative["math."+n] = true
	}
	nativeModels["math.Pow10"] = func(e *Encoder, fr *frame, args []*SVal, ci ssa.CallInstruction, resT types.Type) *SVal {
		e.trusted["math.Pow10 is an uninterpreted function of its integer argument (float64 treated as real arithmetic)"] = true
		return &SVal{K: KScalar, Typ: types.Typ[types.Float64], T: e.c.App("math.Pow10", RealS, args[0].T)}
	}
	pureNative["math.Pow10"] = true
}

const noopFuncTag = -7

func (e *Encoder) sbufTypeOrNil() types.Type {
	return e.w.lookupTypeByName("github.com/google/gopacket.serializeBuffer")
}

// decodeFuncCall models a call of a gopacket.DecodingLayerFunc stored in a
// connection: the layers registered with it (those embedded in the owning
// connection value, plus the confidentiality layer) and the decoded-types
// slice are overwritten; nothing is known about the outcome.
func (e *Encoder) decodeFuncCall(fr *frame, fv *SVal, args []*SVal, ci ssa.CallInstruction, resT types.Type) (*SVal, bool) {
	if !strings.HasSuffix(fv.Typ.String(), "gopacket.DecodingLayerFunc") {
		return nil, false
	}
	c := e.c
	e.trusted["gopacket DecodingLayerFunc (LayersDecoder over the connection's DecodingLayerArray): decodes the datagram into the connection's own layer values and records the decoded layer types; it touches nothing else"] = true
	st := e.cur
	// owner = index of the select that loaded the function value
	if fv.T.Op == "select" {
		owner := fv.T.Args[1]
		for _, tn := range []string{"V2Session", "V2Sessionless"} {
			T := e.w.lookupTypeByName(modPath + "." + tn)
			if T == nil {
				continue
			}
			s := T.Underlying().(*types.Struct)
			if !strings.Contains(fv.T.Args[0].String0(c), "bmc."+tn+".decode") {
				continue
			}
			for i := 0; i < s.NumFields(); i++ {
				if s.Field(i).Name() == "v2ConnectionLayers" {
					a := e.fieldAddr(owner, T, i)
					e.havocAgg(st, a.Ref, a.Typ)
				}
			}
		}
	}
	// decoded layer types slice
	if len(args) > 1 && args[1].K == KPtr {
		a := e.addrOf(args[1])
		e.store(st, a, e.freshVal("layers", a.Typ))
		e.get(st, "mem:bv64", Arr(RefS, Arr(BV64, BV64)))
		e.havocClass(st, "mem:bv64")
	}
	// the datagram itself may be decrypted in place
	e.get(st, "mem:bv8", Arr(RefS, Arr(BV64, BV8)))
	e.havocClass(st, "mem:bv8")
	return e.freshResult("decoded", resT), true
}

// String0 renders the head of a term for class-name matching.
func (t *Term) String0(c *Ctx) string {
	for t != nil && t.Op != "sym" {
		if len(t.Args) == 0 {
			return ""
		}
		t = t.Args[0]
	}
	if t == nil {
		return ""
	}
	return t.Name
}

var _ = fmt.Sprintf

// realLitValue: the value of a real literal term as realLit writes it.
func realLitValue(y *Term) (float64, bool) {
	if y.Op != "real" {
		return 0, false
	}
	n, neg := y.Name, false
	if strings.HasPrefix(n, "(- ") && strings.HasSuffix(n, ")") {
		n, neg = n[3:len(n)-1], true
	}
	f, err := strconv.ParseFloat(n, 64)
	if err != nil {
		return 0, false
	}
	if neg {
		f = -f
	}
	return f, true
}
