package main

import (
	"flag"
	"fmt"
	"os"
	"path/filepath"
	"regexp"
	"sort"
	"strings"
	"time"

	"golang.org/x/tools/go/ssa"
)

func main() {
	if len(os.Args) < 2 {
		fmt.Fprintln(os.Stderr, "usage: bmcvc <verify|check|ssa> ...")
		os.Exit(2)
	}
	cmd := os.Args[1]
	fs := flag.NewFlagSet(cmd, flag.ExitOnError)
	repo := fs.String("repo", "/repo", "repository working tree")
	contracts := fs.String("contracts", "/verif/contracts", "contract files")
	work := fs.String("work", "/verif/work", "scratch directory for queries")
	timeout := fs.Duration("timeout", 20*time.Second, "per-obligation solver timeout")
	tier := fs.String("tier", "quick", "quick|thorough")
	keep := fs.Bool("keep", false, "keep SMT queries")
	verbose := fs.Bool("v", false, "verbose")
	out := fs.String("out", "/verif", "directory for evidence/ and replays/ (default /verif)")
	wl := fs.Bool("writelock", false, "record the discharged obligation ids of this run in obligations.lock.json (reference tree only)")
	fs.Parse(os.Args[2:])
	keepQueries = *keep
	thoroughTier = *tier == "thorough"
	writeLock = *wl
	outDir = *out
	// every invocation works in a scratch directory of its own (queries, dependency copy, go.mod
	// overlay): concurrent checks must not see each other's files. -keep uses the base directory.
	runDir := *work
	if !*keep {
		runDir = filepath.Join(*work, fmt.Sprintf("run.%d", os.Getpid()))
		cleanStaleRuns(*work)
	}
	initSolver(runDir, 16)
	exit := func(code int) {
		if !*keep {
			os.RemoveAll(runDir)
		}
		os.Exit(code)
	}
	switch cmd {
	case "pkgfiles":
		w, err := loadWorld(*repo, *contracts)
		if err != nil {
			fmt.Fprintln(os.Stderr, err)
			os.Exit(2)
		}
		for _, pat := range fs.Args() {
			if p := w.Pkgs[pat]; p != nil {
				fmt.Println(p.GoFiles, p.CompiledGoFiles, p.Errors)
			}
		}
	case "ssa":
		w, err := loadWorld(*repo, *contracts)
		if err != nil {
			fmt.Fprintln(os.Stderr, err)
			os.Exit(2)
		}
		for f := range w.AllFuncs {
			for _, pat := range fs.Args() {
				if strings.Contains(f.String(), pat) {
					f.WriteTo(os.Stdout)
				}
			}
		}
	case "sync":
		// copy the contract files (and the generated prelude) into the repository as verif-tagged, add-only hooks
		n := 0
		filepath.Walk(*contracts, func(p string, fi os.FileInfo, err error) error {
			if err != nil || fi.IsDir() || !strings.HasSuffix(p, "_verif.go") {
				return nil
			}
			rel, _ := filepath.Rel(*contracts, p)
			dst := filepath.Join(*repo, rel)
			b, _ := os.ReadFile(p)
			os.WriteFile(dst, b, 0o644)
			n++
			if m := regexp.MustCompile(`(?m)^package (\w+)`).FindSubmatch(b); m != nil {
				os.WriteFile(filepath.Join(filepath.Dir(dst), "zz_prelude_verif.go"), []byte(fmt.Sprintf(preludeSrc, string(m[1]))), 0o644)
			}
			return nil
		})
		fmt.Println("synced", n, "contract files")
	case "verify":
		w, err := loadWorld(*repo, *contracts)
		if err != nil {
			fmt.Fprintln(os.Stderr, err)
			os.Exit(2)
		}
		var fns []*ssa.Function
		for f := range w.AllFuncs {
			for _, pat := range fs.Args() {
				if strings.Contains(f.String(), pat) && f.Blocks != nil && f.Pkg != nil && ((strings.HasPrefix(f.Pkg.Pkg.Path(), modPath) && !strings.Contains(f.Pkg.Pkg.Path(), "/cmd/")) || w.Contracts[f] != nil) {
					fns = append(fns, f)
				}
			}
		}
		sort.Slice(fns, func(i, j int) bool { return fns[i].String() < fns[j].String() })
		bad := 0
		for _, f := range fns {
			r := verifyFunction(w, f, *timeout, *tier == "thorough")
			printFnResult(r, *verbose)
			bad += r.NotDischarged
		}
		if bad > 0 {
			exit(1)
		}
	case "replaycheck":
		w, err := loadWorld(*repo, *contracts)
		if err != nil {
			fmt.Fprintln(os.Stderr, err)
			os.Exit(2)
		}
		exit(replayOracleCheck(w))
	case "check":
		exit(runCheck(*repo, *contracts, fs.Args(), *tier, *timeout, *verbose))
	default:
		fmt.Fprintln(os.Stderr, "unknown command", cmd)
		os.Exit(2)
	}
	exit(0)
}

// cleanStaleRuns removes scratch directories of runs that ended without cleaning up (older than 2 h).
func cleanStaleRuns(base string) {
	ents, err := os.ReadDir(base)
	if err != nil {
		return
	}
	for _, en := range ents {
		if !strings.HasPrefix(en.Name(), "run.") {
			continue
		}
		if fi, err := en.Info(); err == nil && time.Since(fi.ModTime()) > 2*time.Hour {
			os.RemoveAll(filepath.Join(base, en.Name()))
		}
	}
}
