package main

// Frame / ownership scans over go/ssa (no solver): C19 (no function reachable
// from the API writes package-level state) and the package-wide part of C09
// (the session sequence counter has exactly one writer).

import (
	"fmt"
	"go/token"
	"go/types"
	"os"
	"sort"
	"strings"

	"golang.org/x/tools/go/ssa"
)

// sharedTaint computes, for a function, which SSA values may point into
// package-level (shared) storage of the module, given the parameters that are
// assumed shared.
func sharedValues(fn *ssa.Function, sharedParams map[int]bool) map[ssa.Value]bool {
	sh := map[ssa.Value]bool{}
	for i, p := range fn.Params {
		if sharedParams[i] {
			sh[p] = true
		}
	}
	refLike := func(t types.Type) bool {
		switch t.Underlying().(type) {
		case *types.Pointer, *types.Slice, *types.Map, *types.Interface, *types.Chan, *types.Signature:
			return true
		}
		return false
	}
	changed := true
	for changed {
		changed = false
		mark := func(v ssa.Value) {
			if !sh[v] {
				sh[v] = true
				changed = true
			}
		}
		for _, b := range fn.Blocks {
			for _, in := range b.Instrs {
				switch x := in.(type) {
				case *ssa.FieldAddr:
					if isShared(sh, x.X) {
						mark(x)
					}
				case *ssa.IndexAddr:
					if isShared(sh, x.X) {
						mark(x)
					}
				case *ssa.UnOp:
					// loading a reference out of shared storage gives a reference to shared data
					if x.Op.String() == "*" && isShared(sh, x.X) && refLike(x.Type()) {
						mark(x)
					}
				case *ssa.Slice:
					if isShared(sh, x.X) {
						mark(x)
					}
				case *ssa.Phi:
					for _, e := range x.Edges {
						if isShared(sh, e) {
							mark(x)
						}
					}
				case *ssa.ChangeType:
					if isShared(sh, x.X) {
						mark(x)
					}
				case *ssa.Convert:
					if isShared(sh, x.X) && refLike(x.Type()) {
						mark(x)
					}
				case *ssa.MakeInterface:
					if isShared(sh, x.X) && refLike(x.X.Type()) {
						mark(x)
					}
				case *ssa.ChangeInterface:
					if isShared(sh, x.X) {
						mark(x)
					}
				case *ssa.Lookup:
					if isShared(sh, x.X) && refLike(x.Type()) {
						mark(x)
					}
				case *ssa.Extract:
					if isShared(sh, x.Tuple) && refLike(x.Type()) {
						mark(x)
					}
				case *ssa.TypeAssert:
					if isShared(sh, x.X) {
						mark(x)
					}
				case *ssa.Field:
					if isShared(sh, x.X) && refLike(x.Type()) {
						mark(x)
					}
				}
			}
		}
	}
	return sh
}

func isShared(sh map[ssa.Value]bool, v ssa.Value) bool {
	if sh[v] {
		return true
	}
	if g, ok := v.(*ssa.Global); ok && globalsShared {
		return g.Pkg != nil && strings.HasPrefix(g.Pkg.Pkg.Path(), modPath)
	}
	return false
}

type writeFinding struct {
	fn   string
	what string
	pos  string
}

// internally synchronised or read-only dependency packages: calls into them with shared arguments are not writes to module state
var safeDeps = []string{"github.com/prometheus/", "fmt", "errors", "strings", "strconv", "encoding/hex", "encoding/binary", "time", "math", "sort", "bytes", "context", "crypto/", "hash", "net", "sync", "github.com/cenkalti/backoff", "github.com/google/gopacket"}

func safeDep(path string) bool {
	for _, p := range safeDeps {
		if path == p || strings.HasPrefix(path, p) {
			return true
		}
	}
	return false
}

// scanSharedWrites is the C19 frame check.
func scanSharedWrites(w *World) (checked []string, findings []writeFinding, assumptions []string) {
	// functions of the module (not cmd/, not contract files, not package initialisers)
	var fns []*ssa.Function
	for f := range w.AllFuncs {
		if f.Pkg == nil || f.Blocks == nil || !strings.HasPrefix(f.Pkg.Pkg.Path(), modPath) || strings.Contains(f.Pkg.Pkg.Path(), "/cmd/") {
			continue
		}
		if w.isContractFileFunc(f) || (f.Parent() != nil && w.isContractFileFunc(f.Parent())) {
			continue
		}
		fns = append(fns, f)
	}
	sort.Slice(fns, func(i, j int) bool { return fns[i].String() < fns[j].String() })
	// summaries: does f write through parameter i (transitively)?
	writesParam := map[*ssa.Function]map[int]bool{}
	for _, f := range fns {
		writesParam[f] = map[int]bool{}
	}
	direct := func(f *ssa.Function, sh map[ssa.Value]bool, report func(what string, pos ssa.Instruction)) {
		for _, b := range f.Blocks {
			for _, in := range b.Instrs {
				switch x := in.(type) {
				case *ssa.Store:
					if isShared(sh, x.Addr) {
						report("store through "+x.Addr.Name(), in)
					} else if trackEscapes && isShared(sh, x.Val) && refLikeType(x.Val.Type()) && !readOnlyGlobal(x.Val) {
						// a reference to package-level storage is planted in an object: every instance
						// holding it shares (and may later write) that storage
						report("reference to package-level storage stored into an object (shared between instances)", in)
					}
				case *ssa.MapUpdate:
					if isShared(sh, x.Map) {
						report("map update", in)
					}
				case ssa.CallInstruction:
					cm := x.Common()
					if bi, ok := cm.Value.(*ssa.Builtin); ok {
						if (bi.Name() == "copy" || bi.Name() == "delete" || bi.Name() == "clear") && len(cm.Args) > 0 && isShared(sh, cm.Args[0]) {
							report(bi.Name()+" into shared storage", in)
						}
						if bi.Name() == "append" && len(cm.Args) > 0 && isShared(sh, cm.Args[0]) {
							report("append onto a shared slice (may write its spare capacity)", in)
						}
						continue
					}
					callee := cm.StaticCallee()
					var args []ssa.Value
					if cm.IsInvoke() {
						args = append([]ssa.Value{cm.Value}, cm.Args...)
					} else {
						args = cm.Args
					}
					for i, a := range args {
						if !isShared(sh, a) {
							continue
						}
						switch {
						case callee != nil && writesParam[callee] != nil:
							if writesParam[callee][i] {
								report(fmt.Sprintf("call of %s, which writes through argument %d", shortFn(callee), i), in)
							}
						case callee != nil && callee.Pkg != nil && safeDep(callee.Pkg.Pkg.Path()):
							// a byte buffer handed to a dependency that fills it (Read*, ReadFrom*, ...) is a write
							if isByteSlice(a.Type()) && fillsBuffer(callee) {
								report(fmt.Sprintf("shared byte buffer passed to %s, which writes into it", callee.String()), in)
							} else if i == 0 && callee.Signature.Recv() != nil && mutatingMethodName(callee.Name()) && !readOnlyGlobal(a) {
								report(fmt.Sprintf("mutating method %s of a dependency called on a shared value", callee.String()), in)
							}
						case cm.IsInvoke():
							if i > 0 && isByteSlice(a.Type()) && cm.Method.Pkg() != nil && safeDep(cm.Method.Pkg().Path()) && fillsBufferName(cm.Method.Name()) {
								// e.g. hash.Hash.Sum(b) appends into b's spare capacity, io.Reader.Read(b) fills b
								report("shared byte buffer passed to "+cm.Method.FullName()+", which writes into it", in)
								continue
							}
							// interface method on a shared value: module interfaces are resolved through all implementers
							handled := false
							for _, T := range w.implementers(cm.Value.Type(), cm.Method) {
								if m := w.Prog.LookupMethod(T, cm.Method.Pkg(), cm.Method.Name()); m != nil && writesParam[m] != nil {
									handled = true
									if writesParam[m][i] {
										report(fmt.Sprintf("call of %s, which writes through argument %d", shortFn(m), i), in)
									}
								}
							}
							if !handled {
								pk := ""
								if cm.Method.Pkg() != nil {
									pk = cm.Method.Pkg().Path()
								}
								if !safeDep(pk) && pk != "" {
									report("interface call "+cm.Method.FullName()+" on a shared value (unknown implementation)", in)
								} else if i == 0 && mutatingMethodName(cm.Method.Name()) && !readOnlyGlobal(a) {
									// e.g. gopacket.DecodingLayerContainer.Put on a container kept in a package-level variable
									report("mutating interface method "+cm.Method.FullName()+" of a dependency called on a shared value", in)
								}
							}
						default:
							// dynamic call or dependency outside the safe list
							pk := ""
							if callee != nil && callee.Pkg != nil {
								pk = callee.Pkg.Pkg.Path()
							}
							if !safeDep(pk) {
								report("shared value passed to "+pk+" (not analysed)", in)
							}
						}
					}
				}
			}
		}
	}
	// fixpoint for parameter-write summaries
	for changed := true; changed; {
		changed = false
		for _, f := range fns {
			for i := range f.Params {
				if writesParam[f][i] {
					continue
				}
				sh := sharedValuesNoGlobals(f, map[int]bool{i: true})
				wrote := false
				direct(f, sh, func(string, ssa.Instruction) { wrote = true })
				if wrote {
					writesParam[f][i] = true
					changed = true
				}
			}
		}
	}
	// the check proper: with no parameter shared, does the function write package-level state?
	for _, f := range fns {
		name := w.funcDisplay(f)
		if f.Name() == "init" || strings.HasPrefix(f.Name(), "init#") {
			continue
		}
		checked = append(checked, name)
		sh := sharedValues(f, nil)
		direct(f, sh, func(what string, in ssa.Instruction) {
			findings = append(findings, writeFinding{fn: name, what: what, pos: w.Fset.Position(in.Pos()).String()})
		})
	}
	assumptions = []string{"dependency packages on the safe list (" + strings.Join(safeDeps, ", ") + ") do not write this module's package-level variables through the arguments they are given, or are internally synchronised",
		"a value loaded from package-level storage is a scalar copy unless it is a pointer, slice, map, interface, channel or function",
		"package initialisers (init, variable initialisers) run before any API call"}
	return
}

var trackEscapes = true

func refLikeType(t types.Type) bool {
	switch t.Underlying().(type) {
	case *types.Pointer, *types.Slice, *types.Map, *types.Interface, *types.Chan:
		return true
	}
	return false
}

// readOnlyGlobal: values whose sharing is harmless - prometheus metrics (internally synchronised)
// and anything whose static type comes from a dependency on the safe list.
func readOnlyGlobal(v ssa.Value) bool {
	t := v.Type()
	for {
		if pt, ok := t.Underlying().(*types.Pointer); ok {
			t = pt.Elem()
			continue
		}
		break
	}
	if nt, ok := t.(*types.Named); ok && nt.Obj().Pkg() != nil {
		return strings.HasPrefix(nt.Obj().Pkg().Path(), "github.com/prometheus/")
	}
	return false
}

func isByteSlice(t types.Type) bool {
	sl, ok := t.Underlying().(*types.Slice)
	if !ok {
		return false
	}
	b, ok := sl.Elem().Underlying().(*types.Basic)
	return ok && b.Kind() == types.Uint8
}

// mutatingMethodName: names under which dependency types change their receiver (or what it refers to).
func mutatingMethodName(n string) bool {
	for _, p := range []string{"Put", "Set", "Add", "Write", "Reset", "Insert", "Delete", "Remove", "Store", "Register", "Clear", "Append", "Push", "Pop", "Grow", "Truncate", "Seed", "Next", "Update", "Swap", "Inc", "Dec", "Observe"} {
		if strings.HasPrefix(n, p) {
			return true
		}
	}
	return false
}

// fillsBuffer: dependency functions that write into the byte slice they are given.
func fillsBuffer(f *ssa.Function) bool { return fillsBufferName(f.Name()) }

func fillsBufferName(n string) bool {
	return strings.HasPrefix(n, "Read") || n == "CryptBlocks" || n == "XORKeyStream" || strings.HasPrefix(n, "Put") || n == "Sum"
}

// sharedValuesNoGlobals: taint from the given parameters only (for summaries).
func sharedValuesNoGlobals(fn *ssa.Function, params map[int]bool) map[ssa.Value]bool {
	globalsShared = false
	defer func() { globalsShared = true }()
	return sharedValues(fn, params)
}

var globalsShared = true

func init() {
	specialChecks["C19"] = func(w *World, prop string, thorough bool) specialResult {
		checked, findings, assumptions := scanSharedWrites(w)
		r := specialResult{Backend: "frame-scan (go/ssa, no solver)", Coverage: map[string]interface{}{}}
		bad := map[string][]string{}
		for _, f := range findings {
			if documentedWriters[shortName(f.fn)] || documentedWritersFull(f.fn) {
				continue
			}
			bad[f.fn] = append(bad[f.fn], f.what+" at "+f.pos)
		}
		r.Obligations = len(checked)
		r.Discharged = len(checked) - len(bad)
		r.Functions = nil
		var names []string
		for fn := range bad {
			names = append(names, fn)
		}
		sort.Strings(names)
		for _, fn := range names {
			p := fmt.Sprintf("%s/%s_frame.txt", replayDir(prop), sanitizeFile(fn))
			writeTextFile(p, "// Replay record written by bmcvc.\n// property:   C19\n// obligation: "+fn+":frame:no-write-to-package-level-state\n// result:     no failing input found (the obligation is a syntactic frame check: a schedule is not constructed)\n//\n// writes to package-level state found:\n//   "+strings.Join(bad[fn], "\n//   ")+"\n")
			r.Violations = append(r.Violations, fmt.Sprintf("VIOLATION property=%s replay=%s no-failing-input-found", prop, p))
			fmt.Printf("  obligation %s:frame:no-write-to-package-level-state fails: %s\n", fn, strings.Join(bad[fn], "; "))
		}
		var doc []string
		for _, f := range findings {
			if documentedWriters[shortName(f.fn)] || documentedWritersFull(f.fn) {
				doc = append(doc, f.fn+": "+f.what)
			}
		}
		r.Coverage["functions_scanned"] = len(checked)
		r.Coverage["documented_registration_functions_exempted"] = doc
		r.Coverage["scan_assumptions"] = assumptions
		r.Samples = []map[string]interface{}{{"obligation": "for every function f of the module (cmd/ excluded): no Store / MapUpdate / copy / append / writing call reaches storage derived from a package-level variable", "functions": len(checked), "result": fmt.Sprintf("%d functions clean", r.Discharged)}}
		if len(checked) > 3 {
			r.Samples = append(r.Samples, map[string]interface{}{"examples_checked": checked[:3]})
		}
		return r
	}
}

// registration functions documented as the only writers of package-level tables
var documentedWriters = map[string]bool{}

func documentedWritersFull(fn string) bool {
	return strings.HasSuffix(fn, "RegisterOEMPayloadDescriptor")
}

func writeTextFile(p, s string) {
	_ = os.WriteFile(p, []byte(s), 0o644)
}

// C09, package-wide part: the authenticated inbound sequence counter is written
// by exactly one function, the in-session retry closure (whose step contract is
// proved separately), so the per-attempt contract is the whole story of that counter.
func init() {
	specialChecks["C09"] = func(w *World, prop string, thorough bool) specialResult {
		r := specialResult{Backend: "frame-scan (go/ssa, no solver)", Coverage: map[string]interface{}{}}
		var writers []string
		n := 0
		for f := range w.AllFuncs {
			if f.Pkg == nil || f.Blocks == nil || !strings.HasPrefix(f.Pkg.Pkg.Path(), modPath) || strings.Contains(f.Pkg.Pkg.Path(), "/cmd/") || w.isContractFileFunc(f) {
				continue
			}
			n++
			for _, b := range f.Blocks {
				for _, in := range b.Instrs {
					st, ok := in.(*ssa.Store)
					if !ok {
						continue
					}
					if apt, isP := st.Addr.Type().Underlying().(*types.Pointer); isP && containsNamed(apt.Elem(), "sequenceNumbers", 0) {
						// a whole counter pair (or a struct that holds one) is overwritten
						writers = append(writers, w.funcDisplay(f))
						continue
					}
					fa, ok := st.Addr.(*ssa.FieldAddr)
					if !ok {
						continue
					}
					pt, ok := fa.X.Type().Underlying().(*types.Pointer)
					if !ok {
						continue
					}
					if nt, ok := pt.Elem().(*types.Named); ok && nt.Obj().Name() == "sequenceNumbers" {
						if pt.Elem().Underlying().(*types.Struct).Field(fa.Field).Name() == "Inbound" {
							writers = append(writers, w.funcDisplay(f))
						}
					}
				}
			}
		}
		sort.Strings(writers)
		r.Obligations = 1
		ok := true
		for _, wr := range writers {
			if !strings.HasSuffix(wr, "(*bmc.V2Session).buildAndSend$1") {
				ok = false
			}
		}
		if ok && len(writers) >= 1 {
			r.Discharged = 1
		} else {
			p := fmt.Sprintf("%s/frame_inbound_counter.txt", replayDir(prop))
			writeTextFile(p, "// Replay record written by bmcvc.\n// property:   C09\n// obligation: bmc:frame:sequenceNumbers.Inbound-has-one-writer\n// result:     no failing input found (syntactic frame check)\n//\n// functions storing to sequenceNumbers.Inbound: "+strings.Join(writers, ", ")+"\n")
			r.Violations = append(r.Violations, fmt.Sprintf("VIOLATION property=%s replay=%s no-failing-input-found", prop, p))
			fmt.Printf("  obligation bmc:frame:sequenceNumbers.Inbound-has-one-writer fails: writers = %v\n", writers)
		}
		r.Coverage["inbound_counter_writers"] = writers
		r.Coverage["functions_scanned_for_counter_writes"] = n
		r.Samples = []map[string]interface{}{{"obligation": "bmc:frame:sequenceNumbers.Inbound-has-one-writer", "writers": writers}}
		return r
	}
}

// containsNamed: t is the named type name, or a struct / array that holds one by value.
func containsNamed(t types.Type, name string, depth int) bool {
	if depth > 6 {
		return false
	}
	if nt, ok := t.(*types.Named); ok && nt.Obj().Name() == name {
		return true
	}
	switch u := t.Underlying().(type) {
	case *types.Struct:
		for i := 0; i < u.NumFields(); i++ {
			if containsNamed(u.Field(i).Type(), name, depth+1) {
				return true
			}
		}
	case *types.Array:
		return containsNamed(u.Elem(), name, depth+1)
	}
	return false
}

// Received messages are written only by their own decoders: a store into (or over) a struct of one
// of the protected types anywhere else in the module means that what is later verified or returned is
// no longer what the BMC sent. A syntactic frame check over go/ssa (no solver), like the C09 one.
func receivedMessageWriters(w *World, protected func(name string) bool) (writers []string, scanned int) {
	rootTypes := func(v ssa.Value) []string {
		var out []string
		for depth := 0; depth < 12; depth++ {
			if pt, ok := v.Type().Underlying().(*types.Pointer); ok {
				if nt, ok := pt.Elem().(*types.Named); ok {
					out = append(out, nt.Obj().Name())
				}
			}
			switch x := v.(type) {
			case *ssa.FieldAddr:
				v = x.X
			case *ssa.IndexAddr:
				v = x.X
			default:
				return out
			}
		}
		return out
	}
	for f := range w.AllFuncs {
		if f.Pkg == nil || f.Blocks == nil || !strings.HasPrefix(f.Pkg.Pkg.Path(), modPath) || strings.Contains(f.Pkg.Pkg.Path(), "/cmd/") || w.isContractFileFunc(f) {
			continue
		}
		scanned++
		recvName := ""
		if f.Signature.Recv() != nil {
			t := f.Signature.Recv().Type()
			if pt, ok := t.(*types.Pointer); ok {
				t = pt.Elem()
			}
			if nt, ok := t.(*types.Named); ok {
				recvName = nt.Obj().Name()
			}
		}
		for _, b := range f.Blocks {
			for _, in := range b.Instrs {
				st, ok := in.(*ssa.Store)
				if !ok {
					continue
				}
				if _, isAlloc := st.Addr.(*ssa.Alloc); isAlloc {
					continue // initialisation of a local of that type
				}
				for _, n := range rootTypes(st.Addr) {
					if protected(n) && n != recvName {
						writers = append(writers, fmt.Sprintf("%s writes into a %s (%s)", w.funcDisplay(f), n, w.Fset.Position(st.Pos())))
						break
					}
				}
			}
		}
	}
	sort.Strings(writers)
	return
}

func receivedMessageCheck(prop, obligation, what string, protected func(name string) bool) func(w *World, prop string, thorough bool) specialResult {
	return func(w *World, _ string, thorough bool) specialResult {
		r := specialResult{Backend: "frame-scan (go/ssa, no solver)", Coverage: map[string]interface{}{}}
		writers, n := receivedMessageWriters(w, protected)
		r.Obligations = 1
		if len(writers) == 0 {
			r.Discharged = 1
		} else {
			p := fmt.Sprintf("%s/frame_received_messages.txt", replayDir(prop))
			writeTextFile(p, "// Replay record written by bmcvc.\n// property:   "+prop+"\n// obligation: "+obligation+"\n// result:     no failing input found (syntactic frame check)\n//\n// "+what+" are written outside their decoders:\n//   "+strings.Join(writers, "\n//   ")+"\n")
			r.Violations = append(r.Violations, fmt.Sprintf("VIOLATION property=%s replay=%s no-failing-input-found", prop, p))
			fmt.Printf("  obligation %s fails: %v\n", obligation, writers)
		}
		r.Coverage["received_message_writers_outside_decoders"] = writers
		r.Coverage["functions_scanned_for_received_message_writes"] = n
		r.Samples = []map[string]interface{}{{"obligation": obligation, "writers": writers}}
		return r
	}
}

func init() {
	handshake := func(n string) bool { return n == "OpenSessionRsp" || n == "RAKPMessage2" || n == "RAKPMessage4" }
	specialChecks["C02"] = receivedMessageCheck("C02", "bmc:frame:handshake-responses-written-only-by-their-decoders",
		"the Open Session Response, RAKP Message 2 and RAKP Message 4", handshake)
	specialChecks["C11"] = receivedMessageCheck("C11", "bmc:frame:command-responses-written-only-by-their-decoders",
		"command response structs (types named ...Rsp)", func(n string) bool { return strings.HasSuffix(n, "Rsp") && !handshake(n) })
}

// C13, package-wide part: every context handed to a callee is the caller's own context or one derived
// from it (context.With*), in every function of the module that receives a context - so that no
// blocking call below an exported operation can outlive the context the user passed. A data-flow
// check over go/ssa (no solver); the per-function at-call clauses (C13.attempt-ctx, retry-ctx, ...)
// say the same for the functions under contract, this covers the rest (thin wrappers such as Close,
// GetDeviceID, ...).
func init() {
	specialChecks["C13"] = func(w *World, prop string, thorough bool) specialResult {
		r := specialResult{Backend: "data-flow scan (go/ssa, no solver)", Coverage: map[string]interface{}{}}
		isCtx := func(t types.Type) bool {
			nt, ok := t.(*types.Named)
			return ok && nt.Obj().Pkg() != nil && nt.Obj().Pkg().Path() == "context" && nt.Obj().Name() == "Context"
		}
		var bad []string
		n, calls := 0, 0
		for f := range w.AllFuncs {
			if f.Pkg == nil || f.Blocks == nil || !strings.HasPrefix(f.Pkg.Pkg.Path(), modPath) || strings.Contains(f.Pkg.Pkg.Path(), "/cmd/") || w.isContractFileFunc(f) {
				continue
			}
			// the contexts this function owns: parameters and captured variables of context type
			own := map[ssa.Value]bool{}
			for _, p := range f.Params {
				if isCtx(p.Type()) {
					own[p] = true
				}
			}
			for _, fv := range f.FreeVars {
				if pt, ok := fv.Type().(*types.Pointer); ok && isCtx(pt.Elem()) {
					own[fv] = true
				} else if isCtx(fv.Type()) {
					own[fv] = true
				}
			}
			if len(own) == 0 {
				continue
			}
			n++
			// a context parameter captured by a closure lives in a cell: the cell stands for the parameter
			// if nothing else is ever stored into it
			cellOK := map[ssa.Value]bool{}
			for _, b := range f.Blocks {
				for _, in := range b.Instrs {
					if st, ok := in.(*ssa.Store); ok {
						if al, isAlloc := st.Addr.(*ssa.Alloc); isAlloc && isCtx(al.Type().(*types.Pointer).Elem()) {
							if prev, seen := cellOK[al]; own[st.Val] && (!seen || prev) {
								cellOK[al] = true
							} else {
								cellOK[al] = false
							}
						}
					}
				}
			}
			for al, ok := range cellOK {
				if ok {
					own[al] = true
				}
			}
			var derived func(v ssa.Value, depth int) bool
			derived = func(v ssa.Value, depth int) bool {
				if depth > 20 {
					return false
				}
				if own[v] {
					return true
				}
				switch x := v.(type) {
				case *ssa.Phi:
					for _, e := range x.Edges {
						if e != v && !derived(e, depth+1) {
							return false
						}
					}
					return true
				case *ssa.Extract:
					return derived(x.Tuple, depth+1)
				case *ssa.ChangeInterface:
					return derived(x.X, depth+1)
				case *ssa.MakeInterface:
					return derived(x.X, depth+1)
				case *ssa.UnOp:
					// load of a captured context variable
					return x.Op == token.MUL && derived(x.X, depth+1)
				case *ssa.Call:
					// context.WithTimeout / WithDeadline / WithCancel / WithValue(parent, ...), backoff.WithContext is not a context
					if cal := x.Call.StaticCallee(); cal != nil && cal.Pkg != nil && cal.Pkg.Pkg.Path() == "context" && strings.HasPrefix(cal.Name(), "With") && len(x.Call.Args) > 0 {
						return derived(x.Call.Args[0], depth+1)
					}
				}
				return false
			}
			for _, b := range f.Blocks {
				for _, in := range b.Instrs {
					ci, ok := in.(ssa.CallInstruction)
					if !ok {
						continue
					}
					for _, a := range ci.Common().Args {
						if !isCtx(a.Type()) {
							continue
						}
						calls++
						if !derived(a, 0) {
							bad = append(bad, fmt.Sprintf("%s passes a context that is not derived from its own (%s)", w.funcDisplay(f), w.Fset.Position(ci.Pos())))
						}
					}
				}
			}
		}
		sort.Strings(bad)
		r.Obligations = 1
		if len(bad) == 0 && n > 0 {
			r.Discharged = 1
		} else {
			p := fmt.Sprintf("%s/context_flow.txt", replayDir(prop))
			writeTextFile(p, "// Replay record written by bmcvc.\n// property:   C13\n// obligation: bmc:flow:every-context-passed-on-derives-from-the-caller's\n// result:     no failing input found (data-flow check)\n//\n//   "+strings.Join(bad, "\n//   ")+"\n")
			r.Violations = append(r.Violations, fmt.Sprintf("VIOLATION property=%s replay=%s no-failing-input-found", prop, p))
			fmt.Printf("  obligation bmc:flow:every-context-passed-on-derives-from-the-caller's fails: %v\n", bad)
		}
		r.Coverage["functions_with_a_context_scanned"] = n
		r.Coverage["context_arguments_checked"] = calls
		r.Samples = []map[string]interface{}{{"obligation": "bmc:flow:every-context-passed-on-derives-from-the-caller's", "offenders": bad}}
		return r
	}
}

// C11, package-wide part 2: the outcome of a command is not ignored. In every function of the module,
// the error produced by ValidateResponse (the completion code and transport error of a command folded
// into one error) is compared with nil, and on the non-nil branch the function returns that error (or
// one wrapping it) as its error result - so that a value is handed to the caller only for a command
// that was answered with a normal completion code. A data-flow check over go/ssa (no solver).
func unpropagatedCommandErrors(w *World) (bad []string, calls int) {
	for f := range w.AllFuncs {
		if f.Pkg == nil || f.Blocks == nil || !strings.HasPrefix(f.Pkg.Pkg.Path(), modPath) || strings.Contains(f.Pkg.Pkg.Path(), "/cmd/") || w.isContractFileFunc(f) {
			continue
		}
		for _, b := range f.Blocks {
			for _, in := range b.Instrs {
				call, ok := in.(*ssa.Call)
				if !ok {
					continue
				}
				cal := call.Call.StaticCallee()
				if cal == nil || cal.Name() != "ValidateResponse" || cal.Pkg == nil || cal.Pkg.Pkg.Path() != modPath {
					continue
				}
				calls++
				where := fmt.Sprintf("%s (%s)", w.funcDisplay(f), w.Fset.Position(call.Pos()))
				refs := call.Referrers()
				if refs == nil || len(*refs) == 0 {
					bad = append(bad, where+": the result of ValidateResponse is discarded")
					continue
				}
				// direct return of the error is fine; otherwise it must be compared with nil and returned on the non-nil side
				ok2 := false
				for _, r := range *refs {
					switch u := r.(type) {
					case *ssa.Return:
						ok2 = true
					case *ssa.Store:
						// "return ValidateResponse(...)" in a function with deferred calls: the result goes
						// through the result cell
						if al, isAlloc := u.Addr.(*ssa.Alloc); isAlloc && u.Val == ssa.Value(call) {
							for _, r2 := range *al.Referrers() {
								if ld, isLoad := r2.(*ssa.UnOp); isLoad && ld.Op == token.MUL {
									for _, r3 := range *ld.Referrers() {
										if _, isRet := r3.(*ssa.Return); isRet {
											ok2 = true
										}
									}
								}
							}
						}
					case *ssa.BinOp:
						if u.Op != token.NEQ && u.Op != token.EQL {
							continue
						}
						for _, br := range *u.Referrers() {
							ifi, isIf := br.(*ssa.If)
							if !isIf {
								continue
							}
							blk := ifi.Block().Succs[0] // taken when the comparison is true
							if u.Op == token.EQL {
								blk = ifi.Block().Succs[1]
							}
							// the non-nil side must end in a return whose error result is (derived from) this error
							if returnsError(blk, call, 0) {
								ok2 = true
							}
						}
					}
				}
				if !ok2 {
					bad = append(bad, where+": a non-nil result of ValidateResponse does not end the function with that error")
				}
			}
		}
	}
	sort.Strings(bad)
	return
}

// returnsError: every path from b reaches (within a few blocks, no loops followed) a return whose
// last result is v, or a value built from v (fmt.Errorf("...%w", v), a wrapper call taking v).
func returnsError(b *ssa.BasicBlock, v ssa.Value, depth int) bool {
	if depth > 6 {
		return false
	}
	for _, in := range b.Instrs {
		if r, ok := in.(*ssa.Return); ok {
			if len(r.Results) == 0 {
				return false
			}
			return derivesFrom(r.Results[len(r.Results)-1], v, 0)
		}
	}
	if len(b.Succs) == 0 {
		return false
	}
	for _, s := range b.Succs {
		if !returnsError(s, v, depth+1) {
			return false
		}
	}
	return true
}

func derivesFrom(x, v ssa.Value, depth int) bool {
	if x == v {
		return true
	}
	if depth > 6 {
		return false
	}
	switch y := x.(type) {
	case *ssa.Phi:
		for _, e := range y.Edges {
			if derivesFrom(e, v, depth+1) {
				return true
			}
		}
	case *ssa.MakeInterface:
		return derivesFrom(y.X, v, depth+1)
	case *ssa.ChangeInterface:
		return derivesFrom(y.X, v, depth+1)
	case *ssa.Call:
		for _, a := range y.Call.Args {
			if derivesFrom(a, v, depth+1) {
				return true
			}
		}
	case *ssa.Slice:
		return derivesFrom(y.X, v, depth+1)
	case *ssa.Alloc:
		// varargs array: stores into it
		if refs := y.Referrers(); refs != nil {
			for _, r := range *refs {
				if ia, ok := r.(*ssa.IndexAddr); ok {
					for _, r2 := range *ia.Referrers() {
						if st, ok := r2.(*ssa.Store); ok && derivesFrom(st.Val, v, depth+1) {
							return true
						}
					}
				}
			}
		}
	}
	return false
}

func init() {
	prev := specialChecks["C11"]
	specialChecks["C11"] = func(w *World, prop string, thorough bool) specialResult {
		r := prev(w, prop, thorough)
		bad, calls := unpropagatedCommandErrors(w)
		r.Obligations++
		if len(bad) == 0 && calls > 0 {
			r.Discharged++
		} else {
			p := fmt.Sprintf("%s/command_errors_propagated.txt", replayDir(prop))
			writeTextFile(p, "// Replay record written by bmcvc.\n// property:   C11\n// obligation: bmc:flow:command-errors-are-propagated\n// result:     no failing input found (data-flow check)\n//\n//   "+strings.Join(bad, "\n//   ")+"\n")
			r.Violations = append(r.Violations, fmt.Sprintf("VIOLATION property=%s replay=%s no-failing-input-found", prop, p))
			fmt.Printf("  obligation bmc:flow:command-errors-are-propagated fails: %v\n", bad)
		}
		r.Coverage["validate_response_calls_checked"] = calls
		r.Samples = append(r.Samples, map[string]interface{}{"obligation": "bmc:flow:command-errors-are-propagated", "offenders": bad})
		return r
	}
}
