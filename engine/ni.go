package main

// Non-interference obligations (C17): the observable fields of a decoder's
// receiver after a successful decode do not depend on the receiver's (or any
// other non-configuration) state before the call.

import (
	"fmt"
	"go/token"
	"go/types"
	"strings"
)

type niLeaf struct {
	path  string // Go selector path from the receiver, e.g. ".BaseLayer.Contents#len"
	gopth string // Go selector path of the field (without component suffix)
	term  *Term  // final value
	elemN int    // for byte arrays: number of elements (term is the inner array)
	// byte slices / strings are compared by content, not by identity of the backing array
	seq            bool
	isStr          bool
	base, off, len *Term
	mem            *Term
}

// niObligations is called after the body has been executed, with the merged
// return state and result.
func (e *Encoder) niObligations(fr *frame, ct *Contract, rv *SVal, stOut *State, reach *Term) {
	c := e.c
	fn := fr.fn
	if len(fn.Params) == 0 || fn.Signature.Recv() == nil {
		return
	}
	recv := fr.vals[fn.Params[0]]
	pt, ok := recv.Typ.Underlying().(*types.Pointer)
	if !ok {
		return
	}
	if _, ok := pt.Elem().Underlying().(*types.Struct); !ok {
		return
	}
	// configuration fields (inputs of the decoder), as class/idx pairs
	type cfg struct {
		class string
		idx   *Term
	}
	var cfgs []cfg
	cfgPaths := map[string]bool{}
	if len(ct.Config) > 0 {
		env := e.contractEnv(fr, ct, nil, e.entry, e.entry)
		for _, cl := range ct.Config {
			for _, part := range splitTop(cl.Text, ',') {
				part = strings.TrimSpace(part)
				if part == "" {
					continue
				}
				sub := &Clause{Kind: "config", Text: part, File: cl.File, Line: cl.Line}
				if err := e.w.parseClause(ct, sub); err != nil {
					panic(contractError{err})
				}
				env.info = sub.Info
				a := env.addr(sub.Expr)
				for _, cp := range leafComps(a.Typ) {
					cfgs = append(cfgs, cfg{a.Prefix + cp.suffix, a.Idx})
				}
				cfgPaths[a.Prefix] = true
			}
		}
	}
	// substitution: the receiver's own storage (its fields, recursively, and its
	// embedded arrays) gets an independent copy; all other memory is the same in both runs
	m := map[*Term]*Term{}
	reps := map[string]*Term{}
	isCfg := func(class string, idx *Term) bool {
		for _, cf := range cfgs {
			if cf.class == class && cf.idx == idx {
				return true
			}
		}
		return false
	}
	nPrime := 0
	var walk func(ref *Term, t types.Type, depth int)
	walk = func(ref *Term, t types.Type, depth int) {
		if depth > 6 {
			return
		}
		st, ok := t.Underlying().(*types.Struct)
		if !ok {
			return
		}
		for i := 0; i < st.NumFields(); i++ {
			a := e.fieldAddr(ref, t, i)
			switch u := st.Field(i).Type().Underlying().(type) {
			case *types.Struct:
				walk(a.Ref, st.Field(i).Type(), depth+1)
				continue
			case *types.Array:
				if cls := elemClass(u.Elem()); cls != "" {
					srt := Arr(RefS, Arr(BV64, scalarSort(u.Elem())))
					e.classSort(cls, srt)
					cur, ok := reps[cls]
					if !ok {
						cur = c.Sym("H0."+cls, srt)
					}
					nPrime++
					reps[cls] = c.Store(cur, a.Ref, c.Sym(fmt.Sprintf("H0'.%s.%d", cls, nPrime), srt.E))
				}
				continue
			}
			for _, cp := range leafComps(st.Field(i).Type()) {
				cls := a.Prefix + cp.suffix
				if isCfg(cls, a.Idx) {
					continue
				}
				srt := Arr(RefS, cp.sort)
				e.classSort(cls, srt)
				cur, ok := reps[cls]
				if !ok {
					cur = c.Sym("H0."+cls, srt)
				}
				nPrime++
				reps[cls] = c.Store(cur, a.Idx, c.Sym(fmt.Sprintf("H0'.%s.%d", cls, nPrime), cp.sort))
			}
		}
	}
	walk(e.aggRef(recv), pt.Elem(), 0)
	for _, cl := range sortedStrKeys(reps) {
		m[c.Sym("H0."+cl, e.sorts[cl])] = reps[cl]
	}
	// is the control flow / every call argument independent of the entry state?
	indep := true
	for _, t := range e.niTerms {
		if c.Subst(t, m) != t {
			indep = false
			if debugTiming {
				fmt.Printf("  [ni] %s: state-dependent branch/argument: %s\n", fn.Name(), c.Show(t))
				seen := map[*Term]bool{}
				var rec func(x *Term)
				rec = func(x *Term) {
					if seen[x] {
						return
					}
					seen[x] = true
					if x.Op == "select" && c.Subst(x, m) != x {
						leaf := true
						for _, a := range x.Args {
							if a.Op == "select" && c.Subst(a, m) != a {
								leaf = false
							}
						}
						if leaf {
							var sb strings.Builder
							c.print(&sb, x, nil, 0)
							full := sb.String()
							if len(full) > 3000 {
								full = full[:1500] + " ..... " + full[len(full)-1500:]
							}
							fmt.Printf("       depends via %s\n", full)
						}
					}
					for _, a := range x.Args {
						rec(a)
					}
				}
				rec(t)
			}
			break
		}
	}
	if indep {
		// a fresh symbol whose defining assumption mentions the entry state must not be shared either
		memo := map[*Term]bool{}
		for _, a := range e.assumptions {
			if e.tiFacts[a] {
				continue // a Go type invariant: true of every state, cannot couple the two runs
			}
			if c.Subst(a, m) != a && mentionsFreshAfter(a, -1, memo) {
				indep = false
				if debugTiming {
					fmt.Printf("  [ni] %s: state-dependent assumption: %s\n", fn.Name(), c.Show(a))
				}
				break
			}
		}
	}
	if !indep {
		// also give every post-entry fresh symbol an independent copy
		seen := map[*Term]bool{}
		var rec func(t *Term)
		rec = func(t *Term) {
			if seen[t] {
				return
			}
			seen[t] = true
			if t.Op == "sym" && freshSuffix(t.Name) >= 0 {
				m[t] = c.Sym(t.Name+"'", t.S)
			}
			for _, a := range t.Args {
				rec(a)
			}
		}
		for _, a := range e.assumptions {
			rec(a)
		}
		for _, cl := range sortedStrKeys(stOut.m) {
			rec(stOut.m[cl])
		}
		rec(reach)
	}
	// primed copies of all assumptions
	var extra []*Term
	for _, a := range e.assumptions {
		if p := c.Subst(a, m); p != a {
			extra = append(extra, p)
		}
	}
	// result == nil in both runs
	var ok1 *Term = c.True()
	if rv != nil {
		errv := rv
		if rv.K == KTuple {
			errv = rv.Fields[len(rv.Fields)-1]
		}
		if errv.K == KIface {
			ok1 = c.Eq(errv.Tag, c.Int(0))
		}
	}
	reach2 := c.Subst(reach, m)
	ok2 := c.Subst(ok1, m)
	saved := e.guard
	e.guard = c.And(reach, ok1, reach2)
	defer func() { e.guard = saved }()
	mode := "shared-havoc"
	if !indep {
		mode = "self-composition"
	}
	o := e.oblige("noninterference", "accept", "a later decode is accepted or rejected independently of the receiver's earlier state ("+mode+")", ok2, fn.Pos())
	if o != nil {
		o.Props = []string{"C17"}
		o.Extra = extra
		o.NIMap = m
		o.Expr = "<accept>"
	}
	e.guard = c.And(reach, ok1, reach2, ok2)
	var leaves []niLeaf
	e.niLeaves(stOut, e.aggRef(recv), pt.Elem(), "", cfgPaths, &leaves, 0)
	for _, lf := range leaves {
		var goal *Term
		if lf.seq {
			b2, o2, l2, m2 := c.Subst(lf.base, m), c.Subst(lf.off, m), c.Subst(lf.len, m), c.Subst(lf.mem, m)
			if b2 == lf.base && o2 == lf.off && m2 == lf.mem {
				goal = c.Eq(lf.len, l2)
			} else {
				k := c.Bound("k", BV64)
				a1, a2 := c.Select(lf.mem, lf.base), c.Select(m2, b2)
				same := c.Forall([]*Term{k}, c.Implies(c.BVCmp("bvult", k, lf.len), c.Eq(c.Select(a1, c.BVBin("bvadd", lf.off, k)), c.Select(a2, c.BVBin("bvadd", o2, k)))))
				goal = c.And(c.Eq(lf.len, l2), same)
				// nil-ness of an empty slice is deliberately not compared: a reused value may hold a
				// non-nil empty slice where a fresh one holds nil (same length, same elements)
			}
		} else if lf.elemN > 0 {
			var parts []*Term
			p := c.Subst(lf.term, m)
			for k := 0; k < lf.elemN; k++ {
				kk := c.BVLit(uint64(k), 64)
				parts = append(parts, c.Eq(c.Select(lf.term, kk), c.Select(p, kk)))
			}
			goal = c.And(parts...)
		} else {
			goal = c.Eq(lf.term, c.Subst(lf.term, m))
		}
		o := e.oblige("noninterference", lf.path, "field "+lf.path+" after a successful decode is a function of the decoded bytes only ("+mode+")", goal, token.NoPos)
		if o != nil {
			o.Props = []string{"C17"}
			o.Extra = extra
			o.NIMap = m
			o.Expr = lf.gopth
			o.Pos = e.w.Fset.Position(fn.Pos())
		}
	}
}

func exportedOrEmbedded(f *types.Var) bool { return f.Exported() }

func (e *Encoder) niLeaves(st *State, ref *Term, t types.Type, path string, cfg map[string]bool, out *[]niLeaf, depth int) {
	if depth > 5 {
		return
	}
	c := e.c
	s := t.Underlying().(*types.Struct)
	for i := 0; i < s.NumFields(); i++ {
		f := s.Field(i)
		if !exportedOrEmbedded(f) {
			continue
		}
		a := e.fieldAddr(ref, t, i)
		p := path + "." + f.Name()
		if a.Prefix != "" && cfg[a.Prefix] {
			continue
		}
		switch u := f.Type().Underlying().(type) {
		case *types.Struct:
			e.niLeaves(st, a.Ref, f.Type(), p, cfg, out, depth+1)
			continue
		case *types.Array:
			if cls := elemClass(u.Elem()); cls != "" && u.Len() <= 64 {
				mem := e.get(st, cls, Arr(RefS, Arr(BV64, scalarSort(u.Elem()))))
				mem0 := e.get(e.entry, cls, Arr(RefS, Arr(BV64, scalarSort(u.Elem()))))
				if c.Select(mem, a.Ref) == c.Select(mem0, a.Ref) {
					continue
				}
				*out = append(*out, niLeaf{path: p, gopth: p, term: c.Select(mem, a.Ref), elemN: int(u.Len())})
			}
			continue
		}
		if k := kindOf(f.Type()); k == KString || k == KSlice {
			et := types.Type(types.Typ[types.Uint8])
			if sl, ok := f.Type().Underlying().(*types.Slice); ok {
				et = sl.Elem()
			}
			if cls := elemClass(et); cls != "" {
				v := e.loadLeaf(st, a)
				v0 := e.loadLeaf(e.entry, a)
				if v.Base == v0.Base && v.Off == v0.Off && v.Len == v0.Len {
					continue // never written by this function: not an output
				}
				if k == KString {
					cls = "mem:str"
				}
				mem := e.get(st, cls, Arr(RefS, Arr(BV64, scalarSort(et))))
				*out = append(*out, niLeaf{path: p, gopth: p, seq: true, isStr: k == KString, base: v.Base, off: v.Off, len: v.Len, mem: mem})
				continue
			}
		}
		for _, cp := range leafComps(f.Type()) {
			if cp.suffix == "#cap" {
				continue
			}
			arr := e.get(st, a.Prefix+cp.suffix, Arr(RefS, cp.sort))
			arr0 := e.get(e.entry, a.Prefix+cp.suffix, Arr(RefS, cp.sort))
			if c.Select(arr, a.Idx) == c.Select(arr0, a.Idx) {
				continue // never written by this function: not an output
			}
			*out = append(*out, niLeaf{path: p + cp.suffix, gopth: p, term: c.Select(arr, a.Idx)})
		}
	}
}

// arrayFieldRefs lists the refs of array-typed fields (element class cls) inside a struct.
func (e *Encoder) arrayFieldRefs(ref *Term, t types.Type, cls string, out *[]*Term, depth int) {
	if depth > 5 {
		return
	}
	s, ok := t.Underlying().(*types.Struct)
	if !ok {
		return
	}
	for i := 0; i < s.NumFields(); i++ {
		a := e.fieldAddr(ref, t, i)
		switch u := s.Field(i).Type().Underlying().(type) {
		case *types.Struct:
			e.arrayFieldRefs(a.Ref, s.Field(i).Type(), cls, out, depth+1)
		case *types.Array:
			if elemClass(u.Elem()) == cls {
				*out = append(*out, a.Ref)
			}
		}
	}
}
