package main

// Calls: builtins, contracts at call sites, inlining, native models of
// dependency functions, frame checks.

import (
	"fmt"
	"go/ast"
	"go/constant"
	"go/token"
	"go/types"
	"os"
	"sort"
	"strings"
	"time"

	"golang.org/x/tools/go/ssa"
)

const maxInlineDepth = 8

// packages whose (loop-free or invariant-free) code is inlined from source
// rather than modelled: the verified text is then the dependency's real code.
var inlineDeps = []string{"encoding/binary", "github.com/google/gopacket", "github.com/google/gopacket/layers", "math/bits"}

func canInlinePkg(path string) bool {
	if strings.HasPrefix(path, modPath) {
		return true
	}
	for _, p := range inlineDeps {
		if path == p {
			return true
		}
	}
	return false
}

func (e *Encoder) call(fr *frame, ci ssa.CallInstruction) *SVal {
	cm := ci.Common()
	var resT types.Type
	if v := ci.Value(); v != nil {
		resT = v.Type()
	} else {
		resT = cm.Signature().Results()
	}
	if b, ok := cm.Value.(*ssa.Builtin); ok {
		return e.builtin(fr, b, ci)
	}
	var args []*SVal
	for _, a := range cm.Args {
		args = append(args, e.val(fr, a))
	}
	pos := ci.Pos()
	if e.pure == 0 && len(e.inlineStack) == 0 && e.contract != nil && len(e.contract.AtCalls) > 0 {
		e.atCall(fr, cm, ci, args)
	}
	if e.pure == 0 {
		for _, a := range args {
			if a != nil && a.K != KStruct && a.K != KTuple && a.K != KArray {
				e.niTerms = append(e.niTerms, a.comps()...)
			}
		}
	}
	if cm.IsInvoke() {
		recv := e.val(fr, cm.Value)
		// nil interface method call panics
		nz := e.c.Not(e.c.Eq(recv.Tag, e.c.Int(0)))
		if !nz.IsTrue() {
			e.oblige("nil", fr.anchorFor(e, cm.Value, cm.Value.Name())+"."+cm.Method.Name(), "method call on a nil interface value", nz, pos)
			e.assume(nz)
		}
		if recv.Dyn == nil {
			e.knownDynType(recv)
		}
		if recv.Dyn != nil {
			if callee := e.w.Prog.LookupMethod(recv.Dyn, cm.Method.Pkg(), cm.Method.Name()); callee != nil {
				var rv *SVal
				if _, isPtr := recv.Dyn.Underlying().(*types.Pointer); isPtr {
					if recv.Inner != nil {
						rv = recv.Inner
					} else {
						rv = &SVal{K: KPtr, Typ: recv.Dyn, T: recv.T}
					}
				} else if recv.Inner != nil {
					rv = recv.Inner
				} else {
					rv = e.load(e.cur, e.boxAddr(recv.T, recv.Dyn))
				}
				return e.callStatic(fr, callee, append([]*SVal{rv}, args...), nil, ci, resT)
			}
		}
		key := ifaceMethodKey(cm.Value.Type(), cm.Method)
		if m, ok := nativeModels[key]; ok {
			e.trusted[key] = true
			return m(e, fr, append([]*SVal{recv}, args...), ci, resT)
		}
		if ct := e.w.ByName["iface:"+key]; ct != nil {
			return e.applyContract(fr, ct, append([]*SVal{recv}, args...), ci, resT)
		}
		if impls := e.w.implementers(cm.Value.Type(), cm.Method); len(impls) > 0 && len(impls) <= 6 {
			return e.dispatchInvoke(fr, recv, impls, cm.Method, args, ci, resT, key)
		}
		if len(args) == 0 && e.w.isModuleInterface(cm.Value.Type()) {
			// accessor methods (no arguments) of the module's own interfaces - Command.Name/Operation/
			// Request/Response/RemoteLUN, Payload.Descriptor/... - are pure functions of the receiver
			e.trusted["accessor methods without arguments of "+typeKey(cm.Value.Type())+" are pure (equal receivers give equal results, no side effects)"] = true
			return e.pureGetter(key, recv, resT)
		}
		return e.unmodelledCall(fr, key, append([]*SVal{recv}, args...), ci, resT)
	}
	if callee := cm.StaticCallee(); callee != nil {
		var bind []*SVal
		if mc, ok := cm.Value.(*ssa.MakeClosure); ok {
			for _, b := range mc.Bindings {
				bind = append(bind, e.val(fr, b))
			}
		}
		return e.callStatic(fr, callee, args, bind, ci, resT)
	}
	fv := e.val(fr, cm.Value)
	if fv.Fn != nil {
		return e.callStatic(fr, fv.Fn, args, fv.Bind, ci, resT)
	}
	if fv.Tag != nil && fv.Tag.Op == "int" && int64(fv.Tag.V) == noopFuncTag {
		return &SVal{K: KTuple, Typ: resT} // context cancel function
	}
	if r, ok := e.decodeFuncCall(fr, fv, args, ci, resT); ok {
		return r
	}
	if cands := e.w.funcCandidates(cm.Signature()); len(cands) > 0 && len(cands) <= 16 {
		return e.dispatchFunc(fr, fv, cands, args, ci, resT)
	}
	if os.Getenv("BMCVC_DEBUG") != "" {
		fmt.Fprintf(os.Stderr, "dynamic call %s: %d candidates %v\n", cm.Signature(), len(e.w.funcCandidates(cm.Signature())), e.w.funcCandidates(cm.Signature()))
	}
	return e.unmodelledCall(fr, "dynamic call "+cm.Value.Name(), args, ci, resT)
}

func ifaceMethodKey(t types.Type, m *types.Func) string {
	return "(" + typeKey(t) + ")." + m.Name()
}

func (e *Encoder) callStatic(fr *frame, callee *ssa.Function, args []*SVal, bind []*SVal, ci ssa.CallInstruction, resT types.Type) *SVal {
	name := callee.String()
	if ct := e.w.Contracts[callee]; ct != nil && ct.Mode != "inline" && !ct.isEmpty() && callee != e.top && (e.specPure == 0 || callee.Blocks == nil) {
		return e.applyContract(fr, ct, args, ci, resT)
	}
	if nat, ok := ghostSSA[callee.Name()]; ok && nat && callee.Pkg != nil && strings.HasPrefix(callee.Pkg.Pkg.Path(), modPath) && e.w.isContractFileFunc(callee) {
		// ghost functions of the prelude called from a spec function's body
		env := &Env{e: e, fr: fr, ct: e.contract, st: e.cur, old: e.entry}
		if env.ct == nil {
			env.ct = &Contract{FuncName: shortFn(e.top)}
		}
		return nativeSpec[callee.Name()](env, nil, args)
	}
	if m, ok := nativeModels[name]; ok {
		e.trusted[name] = true
		return m(e, fr, args, ci, resT)
	}
	if callee.Name() == "init" && callee.Pkg != nil && !strings.HasPrefix(callee.Pkg.Pkg.Path(), modPath) {
		return e.unmodelledCall(fr, name, args, ci, resT)
	}
	if callee.Blocks != nil && callee.Pkg != nil && canInlinePkg(callee.Pkg.Pkg.Path()) || (callee.Blocks != nil && callee.Parent() != nil) {
		if len(e.inlineStack) < maxInlineDepth {
			rec := callee == e.top
			for _, f := range e.inlineStack {
				if f == callee {
					rec = true
				}
			}
			if !rec {
				return e.inlineCall(fr, callee, args, bind, ci, resT)
			}
		}
	}
	return e.unmodelledCall(fr, name, args, ci, resT)
}

func (e *Encoder) inlineCall(fr *frame, callee *ssa.Function, args []*SVal, bind []*SVal, ci ssa.CallInstruction, resT types.Type) *SVal {
	e.inlined[e.w.funcDisplay(callee)] = true
	nf := e.newFrame(callee)
	nf.bindings = bind
	e.inlineStack = append(e.inlineStack, callee)
	// coerce args to parameter types (untyped nil etc.)
	for i := range args {
		if i < len(callee.Params) {
			args[i] = e.coerce(args[i], callee.Params[i].Type())
		}
	}
	rv, st, reach := e.run(nf, args, e.guard, e.cur)
	e.inlineStack = e.inlineStack[:len(e.inlineStack)-1]
	e.cur = st
	// the callee may panic/diverge on some paths: the caller continues only where it returned
	if reach != e.guard {
		e.guard = reach
		fr.reachOverride(reach)
	}
	if rv == nil {
		return &SVal{K: KTuple, Typ: resT}
	}
	return rv
}

func (fr *frame) reachOverride(t *Term) {}

func (e *Encoder) unmodelledCall(fr *frame, name string, args []*SVal, ci ssa.CallInstruction, resT types.Type) *SVal {
	if strings.Contains(name, "prometheus/promauto.New") {
		e.trusted["promauto.New* return usable (non-nil) metrics"] = true
		r := e.freshResult("metric", resT)
		if r.K == KIface {
			e.assumeFact(e.c.Not(e.c.Eq(r.Tag, e.c.Int(0))))
			r.T = e.newAlloc() // every metric is an object of its own
		} else if r.K == KPtr {
			r.T = e.newAlloc()
		}
		return r
	}
	if e.initMode {
		// package initialisers: dependency functions are assumed not to write this module's variables
		e.trusted["package initialisers: calls into dependency functions do not modify the module's package-level variables"] = true
		return e.freshResult("ret."+shortName(name), resT)
	}
	e.unmodelled[name] = true
	// sound and weak: everything reachable may have changed
	pre := e.cur
	e.havocAll()
	e.restoreReceiver(fr, pre, args)
	if !strings.Contains(name, "bmc.") && !strings.Contains(name, "dcmi.") && !strings.HasPrefix(name, "dynamic call") || e.privateCallback(ci) {
		// code outside the packages that own the metrics and the transport cannot reach them
		e.trusted["functions outside packages bmc and dcmi do not change the library's metrics or send datagrams"] = true
		for _, cl := range []string{"ghost:metric", "ghost:metricvec", "ghost:sends"} {
			if t, ok := pre.m[cl]; ok {
				e.cur.m[cl] = t
			}
		}
	}
	if e.pure == 0 && e.contract != nil && len(e.contract.Assigns) > 0 && !e.contract.AssignsAny {
		e.oblige("frame", "call:"+name, "call to an unmodelled function may modify anything", e.c.False(), ci.Pos())
	}
	return e.freshResult("ret."+shortName(name), resT)
}

func shortName(s string) string {
	if k := strings.LastIndex(s, "/"); k >= 0 {
		s = s[k+1:]
	}
	return s
}

func (e *Encoder) freshResult(prefix string, resT types.Type) *SVal {
	if tt, ok := resT.(*types.Tuple); ok {
		if tt.Len() == 0 {
			return &SVal{K: KTuple, Typ: resT}
		}
		if tt.Len() == 1 {
			return e.freshVal(prefix, tt.At(0).Type())
		}
		v := &SVal{K: KTuple, Typ: resT}
		for i := 0; i < tt.Len(); i++ {
			v.Fields = append(v.Fields, e.freshVal(fmt.Sprintf("%s.%d", prefix, i), tt.At(i).Type()))
		}
		return v
	}
	return e.freshVal(prefix, resT)
}

func (e *Encoder) havocAll() {
	old := e.cur
	e.cur = &State{m: map[string]*Term{}, epoch: e.nextEpoch()}
	// values boxed in interfaces and string contents are immutable
	for cl, t := range old.m {
		if strings.HasPrefix(cl, "box:") || cl == "mem:str" || strings.HasPrefix(cl, "glob:") {
			// (package-level variables of the module are written only by initialisers: obligation of C19)
			e.cur.m[cl] = t
		}
	}
}

// callPure evaluates a loop-free function on given arguments without
// generating obligations; used for spec functions and pure helpers.
func (e *Encoder) callPure(callee *ssa.Function, args []*SVal, st *State) *SVal {
	if callee.Blocks == nil {
		panic(contractError{fmt.Errorf("pure call of %s: no body", callee)})
	}
	nf := e.newFrame(callee)
	if len(nf.loops) > 0 {
		panic(contractError{fmt.Errorf("pure call of %s: function has loops (needs a native spec function)", callee)})
	}
	saved, savedGuard := e.cur, e.guard
	nA := len(e.assumptions)
	e.pure++
	e.specPure++
	e.inlineStack = append(e.inlineStack, callee)
	rv, _, _ := e.run(nf, args, e.c.True(), st)
	e.inlineStack = e.inlineStack[:len(e.inlineStack)-1]
	e.pure--
	e.specPure--
	e.cur, e.guard = saved, savedGuard
	// facts introduced while evaluating a spec function must not mention its bound variables
	kept := e.assumptions[:nA]
	for _, a := range e.assumptions[nA:] {
		if !a.hb {
			kept = append(kept, a)
		}
	}
	e.assumptions = kept
	return rv
}

// ---- contracts at call sites ---------------------------------------------------------

func (e *Encoder) applyContract(fr *frame, ct *Contract, args []*SVal, ci ssa.CallInstruction, resT types.Type) *SVal {
	c := e.c
	callee := ct.Fn
	for i := range args {
		if i < len(callee.Params) {
			args[i] = e.coerce(args[i], callee.Params[i].Type())
		}
	}
	pre := e.cur
	env := e.contractEnv(nil, ct, args, pre, pre)
	cname := shortFn(callee)
	if ct.Nocheck && callee.Pkg != nil && strings.HasPrefix(callee.Pkg.Pkg.Path(), modPath) {
		e.trusted["the contract of "+callee.String()+" is assumed at its call sites, its body is not verified (contract file: trusted)"] = true
	}
	// implicit preconditions of every contract: pointer and interface parameters are non-nil
	// (unless "option nilable:<param>"), and "option dyn:<param>=<type>" fixes a dynamic type
	if e.pure == 0 {
		for i, p := range callee.Params {
			if i >= len(args) || args[i] == nil {
				continue
			}
			a := args[i]
			if !ct.Options["nilable:"+p.Name()] {
				var nz *Term
				switch a.K {
				case KPtr:
					nz = c.Not(c.Eq(a.T, c.NilRef()))
				case KIface:
					nz = c.Not(c.Eq(a.Tag, c.Int(0)))
				}
				if nz != nil && !nz.IsTrue() {
					e.oblige("requires", cname+":nonnil."+p.Name(), "precondition of "+cname+": parameter "+p.Name()+" is not nil", nz, ci.Pos())
					e.assume(nz)
				}
			}
			if T := ct.dynOption(e.w, p.Name()); T != nil && a.K == KIface {
				ok := c.Eq(a.Tag, c.Int(int64(e.w.typeTag(T))))
				if !ok.IsTrue() {
					e.oblige("requires", cname+":dyn."+p.Name(), "precondition of "+cname+": parameter "+p.Name()+" has dynamic type "+typeKey(T), ok, ci.Pos())
					e.assume(ok)
				}
			}
		}
	}
	for i, cl := range ct.Requires {
		t := env.trClause(cl)
		tag := cl.Tag
		if tag == "" {
			tag = fmt.Sprintf("pre%d", i)
		}
		o := e.oblige("requires", cname+":"+tag, "precondition of "+cname+": "+cl.Text, t, ci.Pos())
		if o != nil {
			o.Props = append(append([]string{}, o.Props...), propsOfTag(cl.Tag, nil)...)
		}
		e.assume(t)
	}
	// havoc the frame
	post := pre.clone()
	if len(ct.Assigns) == 0 || ct.AssignsAny {
		e.cur = pre
		e.havocAll()
		e.restoreReceiver(fr, pre, args)
		for i, p := range callee.Params {
			if i < len(args) && ct.Options["keeps-request:"+p.Name()] {
				// stated on the contract: the command's request fields are only read
				e.trusted["SendCommand(ctx, c) leaves the request fields (c.Req) of the command unchanged (request serialisers only read their receiver)"] = true
				e.restoreRequest(pre, args[i])
			}
		}
		post = e.cur
		if e.pure == 0 && e.contract != nil && len(e.contract.Assigns) > 0 && !e.contract.AssignsAny {
			e.oblige("frame", "call:"+cname, "callee without assigns clause may modify anything", c.False(), ci.Pos())
		}
	} else {
		for _, al := range e.assignLocs(env, ct) {
			e.havocLoc(post, al)
			if e.pure == 0 {
				e.frameCheckLoc(fr, al, ci.Pos(), "call "+cname)
			}
		}
	}
	e.cur = post
	res := e.freshResult("ret."+cname, resT)
	env2 := e.contractEnv(nil, ct, args, post, pre)
	env2.result = res
	env2.callSite = true
	var posts []*Term
	for _, cl := range ct.Ensures {
		if cl.Slow && !thoroughTier {
			continue // not verified in this tier, so not assumed either
		}
		t, ok := func() (t *Term, ok bool) {
			defer func() {
				if r := recover(); r != nil {
					ce, isCE := r.(contractError)
					if isCE && strings.Contains(ce.err.Error(), "cannot resolve variable") {
						// a postcondition over the callee's local variables says nothing a caller can use
						ok = false
						return
					}
					panic(r)
				}
			}()
			return env2.trClause(cl), true
		}()
		if !ok {
			continue
		}
		e.assume(t)
		posts = append(posts, t)
	}
	// equality propagation: a postcondition conjunct "fresh symbol == term" defines that symbol;
	// substituting it into the result and the post-state lets the simplifier resolve memory
	// accesses syntactically instead of leaving the equation to the solver
	sub := map[*Term]*Term{}
	var conj func(t *Term)
	conj = func(t *Term) {
		if t.Op == "and" {
			for _, a := range t.Args {
				conj(a)
			}
			return
		}
		if t.Op == "=" {
			a, b := t.Args[0], t.Args[1]
			isDef := func(x, y *Term) bool {
				return x.Op == "sym" && freshSuffix(x.Name) >= 0 && (strings.HasPrefix(x.Name, "ret.") || strings.HasPrefix(x.Name, "hv.")) && !mentions(y, x)
			}
			if isDef(a, b) {
				if _, dup := sub[a]; !dup {
					sub[a] = b
				}
			} else if isDef(b, a) {
				if _, dup := sub[b]; !dup {
					sub[b] = a
				}
			}
		}
	}
	for _, t := range posts {
		conj(t)
	}
	if len(sub) > 0 {
		// resolve chains (a := f(b), b := g) by iterating a few times
		for i := 0; i < 4; i++ {
			for _, k := range sortedTermKeys(sub) {
				sub[k] = c.Subst(sub[k], sub)
			}
		}
		res = e.substVal(res, sub)
		for _, cl := range sortedStrKeys(post.m) {
			post.m[cl] = c.Subst(post.m[cl], sub)
		}
	}
	return res
}

func mentions(t, x *Term) bool {
	seen := map[*Term]bool{}
	var rec func(t *Term) bool
	rec = func(t *Term) bool {
		if t == x {
			return true
		}
		if seen[t] {
			return false
		}
		seen[t] = true
		for _, a := range t.Args {
			if rec(a) {
				return true
			}
		}
		return false
	}
	return rec(t)
}

// substVal applies a term substitution to every component of a value.
func (e *Encoder) substVal(v *SVal, m map[*Term]*Term) *SVal {
	if v == nil {
		return nil
	}
	c := e.c
	n := *v
	s := func(t *Term) *Term {
		if t == nil {
			return nil
		}
		return c.Subst(t, m)
	}
	n.T, n.Base, n.Off, n.Len, n.Cap, n.Tag = s(v.T), s(v.Base), s(v.Off), s(v.Len), s(v.Cap), s(v.Tag)
	if v.Fields != nil {
		n.Fields = make([]*SVal, len(v.Fields))
		for i, f := range v.Fields {
			n.Fields[i] = e.substVal(f, m)
		}
	}
	return &n
}

// assignLoc is one permitted write location.
type assignLoc struct {
	all    bool  // everything under ref
	ref    *Term // for all
	typ    types.Type
	prefix string // class prefix for a single leaf location
	idx    *Term
	text   string
	addr   *Addr
}

func (e *Encoder) assignLocs(env *Env, ct *Contract) []assignLoc {
	var out []assignLoc
	for _, cl := range ct.Assigns {
		for _, part := range splitTop(cl.Text, ',') {
			part = strings.TrimSpace(part)
			if part == "" || part == "nothing" {
				continue
			}
			if part == "*" {
				continue
			}
			all := false
			if strings.HasSuffix(part, ".*") {
				all = true
				part = strings.TrimSuffix(part, ".*")
			}
			if strings.HasPrefix(part, "hashstate(") && strings.HasSuffix(part, ")") {
				// the ghost absorb state of a hash.Hash
				sub := &Clause{Kind: "assigns", Text: part[10 : len(part)-1], File: cl.File, Line: cl.Line}
				v := env.trClauseVal(sub)
				obj, _ := e.hashObjOf(v, env.state())
				out = append(out, assignLoc{prefix: "ghost:hash#st", idx: obj, typ: types.Typ[types.Int], text: cl.Text})
				continue
			}
			isMem := false
			if strings.HasPrefix(part, "mem(") && strings.HasSuffix(part, ")") {
				isMem = true
				part = part[4 : len(part)-1]
			}
			sub := &Clause{Kind: "assigns", Text: part, File: cl.File, Line: cl.Line}
			if all || isMem {
				v := env.trClauseVal(sub)
				if isMem {
					if v.K == KPtr {
						// pointer to array
						out = append(out, assignLoc{prefix: "mem:bv8", idx: e.aggRef(v), text: cl.Text})
					} else {
						et := v.Typ.Underlying().(*types.Slice).Elem()
						out = append(out, assignLoc{prefix: elemClass(et), idx: v.Base, text: cl.Text})
					}
					continue
				}
				var ref *Term
				var t types.Type
				if v.K == KPtr {
					ref = e.aggRef(v)
					t = v.Typ.Underlying().(*types.Pointer).Elem()
				} else {
					panic(contractError{fmt.Errorf("%s:%d: assigns %s.*: not a pointer", cl.File, cl.Line, part)})
				}
				out = append(out, assignLoc{all: true, ref: ref, typ: t, text: cl.Text})
				continue
			}
			if err := e.w.parseClause(ct, sub); err != nil {
				panic(contractError{err})
			}
			env.info = sub.Info
			a := env.addr(sub.Expr)
			if isAggregate(a.Typ) {
				out = append(out, assignLoc{all: true, ref: a.Ref, typ: a.Typ, text: cl.Text})
			} else {
				out = append(out, assignLoc{prefix: a.Prefix, idx: a.Idx, typ: a.Typ, text: cl.Text, addr: a})
			}
		}
	}
	return out
}

// havocLoc overwrites a location (or every leaf under an aggregate) with fresh values.
func (e *Encoder) havocLoc(st *State, al assignLoc) {
	c := e.c
	if al.all {
		e.havocAgg(st, al.ref, al.typ)
		return
	}
	if strings.HasPrefix(al.prefix, "mem:") {
		srt := e.sorts[al.prefix]
		if srt == nil {
			srt = Arr(RefS, Arr(BV64, BV8))
		}
		arr := e.get(st, al.prefix, srt)
		e.set(st, al.prefix, c.Store(arr, al.idx, c.Fresh("hv."+al.prefix, srt.E)))
		return
	}
	if al.prefix == "ghost:hash#st" {
		arr := e.get(st, al.prefix, Arr(RefS, IntS))
		e.set(st, al.prefix, c.Store(arr, al.idx, c.Fresh("hv.hashstate", IntS)))
		return
	}
	for _, cp := range leafComps(al.typ) {
		arr := e.get(st, al.prefix+cp.suffix, Arr(RefS, cp.sort))
		e.set(st, al.prefix+cp.suffix, c.Store(arr, al.idx, c.Fresh("hv."+al.prefix+cp.suffix, cp.sort)))
	}
	if al.addr != nil {
		e.typeInvariant(e.loadLeaf(st, al.addr))
	}
}

func (e *Encoder) havocAgg(st *State, ref *Term, t types.Type) {
	c := e.c
	switch u := t.Underlying().(type) {
	case *types.Struct:
		for i := 0; i < u.NumFields(); i++ {
			a := e.fieldAddr(ref, t, i)
			if isAggregate(a.Typ) {
				e.havocAgg(st, a.Ref, a.Typ)
			} else {
				e.havocLoc(st, assignLoc{prefix: a.Prefix, idx: a.Idx, typ: a.Typ, addr: a})
			}
		}
	case *types.Array:
		if cls := elemClass(u.Elem()); cls != "" {
			srt := Arr(RefS, Arr(BV64, scalarSort(u.Elem())))
			arr := e.get(st, cls, srt)
			e.set(st, cls, c.Store(arr, ref, c.Fresh("hv."+cls, srt.E)))
		} else {
			for i := int64(0); i < u.Len(); i++ {
				a := e.elemAddr(ref, c.BVLit(uint64(i), 64), u.Elem())
				if isAggregate(a.Typ) {
					e.havocAgg(st, a.Ref, a.Typ)
				} else {
					e.havocLoc(st, assignLoc{prefix: a.Prefix, idx: a.Idx, typ: a.Typ, addr: a})
				}
			}
		}
	}
}

// ---- frame checks ------------------------------------------------------------------------

// refIsFresh: the ref is rooted at an object allocated by this invocation.
func (e *Encoder) refIsFresh(r *Term) bool {
	for r != nil {
		switch r.Op {
		case "sub", "idx":
			r = r.Args[0]
		case "root":
			x := r.Args[0]
			return x == e.A0 || (x.Op == "+" && x.Args[0] == e.A0)
		default:
			return false
		}
	}
	return false
}

func refDescends(r, anc *Term) bool {
	for r != nil {
		if r == anc {
			return true
		}
		switch r.Op {
		case "sub", "idx":
			r = r.Args[0]
		default:
			return false
		}
	}
	return false
}

func (e *Encoder) topAssigns(fr *frame) ([]assignLoc, bool) {
	ct := e.contract
	if ct == nil || len(ct.Assigns) == 0 {
		return nil, false
	}
	if e.topAssignLocs == nil {
		env := e.contractEnv(e.topFrame, ct, nil, e.entry, e.entry)
		e.topAssignLocs = e.assignLocs(env, ct)
		e.topAssignsSet = true
	}
	return e.topAssignLocs, true
}

func (e *Encoder) frameCheck(fr *frame, a *Addr, pos token.Pos) {
	if e.pure > 0 {
		return
	}
	var al assignLoc
	if isAggregate(a.Typ) {
		al = assignLoc{all: true, ref: a.Ref, typ: a.Typ}
	} else {
		al = assignLoc{prefix: a.Prefix, idx: a.Idx, typ: a.Typ}
	}
	e.frameCheckLoc(fr, al, pos, "store")
}

func (e *Encoder) frameCheckLoc(fr *frame, w assignLoc, pos token.Pos, what string) {
	c := e.c
	allowed, have := e.topAssigns(fr)
	if !have {
		return
	}
	ref := w.idx
	if w.all {
		ref = w.ref
	}
	if e.refIsFresh(ref) {
		return
	}
	if strings.HasPrefix(w.prefix, "glob:") || (ref.Op == "root" && ref.Args[0].Op == "int" && int64(ref.Args[0].V) < 0) {
		// package-level state
	}
	var conds []*Term
	for _, al := range allowed {
		if al.all {
			if refDescends(ref, al.ref) {
				return
			}
			continue
		}
		if w.all {
			continue
		}
		if al.prefix == w.prefix {
			conds = append(conds, c.Eq(al.idx, w.idx))
		}
	}
	// ... or the object written was allocated by this invocation (known only semantically, e.g. from
	// a loop invariant isnew(x))
	conds = append(conds, c.NewObject(ref, e.A0, 3))
	goal := c.Or(conds...)
	if goal.IsTrue() {
		return
	}
	desc := what + " writes only locations named in the assigns clause"
	anchor := w.prefix
	if w.all {
		anchor = typeKey(w.typ) + ".*"
	}
	e.oblige("frame", anchor, desc, goal, pos)
}

// ---- builtins ----------------------------------------------------------------------------

func (e *Encoder) builtin(fr *frame, b *ssa.Builtin, ci ssa.CallInstruction) *SVal {
	c := e.c
	cm := ci.Common()
	var args []*SVal
	for _, a := range cm.Args {
		args = append(args, e.val(fr, a))
	}
	intT := types.Typ[types.Int]
	switch b.Name() {
	case "len":
		v := args[0]
		switch v.K {
		case KSlice, KString:
			return &SVal{K: KScalar, Typ: intT, T: v.Len}
		case KArray:
			return &SVal{K: KScalar, Typ: intT, T: c.BVLit(uint64(v.Typ.Underlying().(*types.Array).Len()), 64)}
		case KPtr:
			at := v.Typ.Underlying().(*types.Pointer).Elem().Underlying().(*types.Array)
			return &SVal{K: KScalar, Typ: intT, T: c.BVLit(uint64(at.Len()), 64)}
		case KMap:
			e.subsetWarn("len(map) abstracted")
			r := e.freshVal("maplen", intT)
			e.assumeFact(c.BVCmp("bvsle", c.BVLit(0, 64), r.T))
			return r
		}
	case "cap":
		v := args[0]
		if v.K == KSlice {
			return &SVal{K: KScalar, Typ: intT, T: v.Cap}
		}
	case "copy":
		return e.copyBuiltin(fr, args[0], args[1], ci)
	case "append":
		return e.appendBuiltin(fr, args[0], args[1], ci)
	case "min", "max":
		r := args[0]
		sg := isSigned(cm.Args[0].Type())
		for _, a := range args[1:] {
			op := "bvule"
			if sg {
				op = "bvsle"
			}
			le := c.BVCmp(op, r.T, a.T)
			if b.Name() == "max" {
				r = &SVal{K: KScalar, Typ: r.Typ, T: c.Ite(le, a.T, r.T)}
			} else {
				r = &SVal{K: KScalar, Typ: r.Typ, T: c.Ite(le, r.T, a.T)}
			}
		}
		return r
	case "delete":
		e.subsetWarn("delete(map) abstracted")
		return &SVal{K: KTuple}
	case "print", "println":
		return &SVal{K: KTuple}
	}
	e.subsetWarn("unsupported builtin " + b.Name())
	if v := ci.Value(); v != nil {
		return e.freshVal("builtin", v.Type())
	}
	return &SVal{K: KTuple}
}

func (e *Encoder) copyBuiltin(fr *frame, dst, src *SVal, ci ssa.CallInstruction) *SVal {
	c := e.c
	intT := types.Typ[types.Int]
	et := dst.Typ.Underlying().(*types.Slice).Elem()
	cls := elemClass(et)
	n := c.Ite(c.BVCmp("bvule", dst.Len, src.Len), dst.Len, src.Len)
	if cls == "" {
		e.subsetWarn("copy of non-scalar elements abstracted")
		e.havocAll()
		return &SVal{K: KScalar, Typ: intT, T: n}
	}
	if e.pure == 0 {
		e.frameCheckLoc(fr, assignLoc{prefix: cls, idx: dst.Base}, ci.Pos(), "copy")
	}
	srt := Arr(RefS, Arr(BV64, scalarSort(et)))
	mem := e.get(e.cur, cls, srt)
	sa := c.Select(mem, src.Base)
	if src.K == KString {
		sa = c.Select(e.get(e.cur, "mem:str", srt), src.Base)
	}
	da := c.Select(mem, dst.Base)
	if n.IsLit() && n.V <= 64 {
		// unrolled; read all sources first (memmove semantics)
		vals := make([]*Term, n.V)
		for k := uint64(0); k < n.V; k++ {
			vals[k] = c.Select(sa, c.BVBin("bvadd", src.Off, c.BVLit(k, 64)))
		}
		for k := uint64(0); k < n.V; k++ {
			da = c.Store(da, c.BVBin("bvadd", dst.Off, c.BVLit(k, 64)), vals[k])
		}
		e.set(e.cur, cls, c.Store(mem, dst.Base, da))
		return &SVal{K: KScalar, Typ: intT, T: n}
	}
	if bound, ok := e.smallBound(n, 64); ok {
		// bounded symbolic length: conditional stores, no quantifier
		vals := make([]*Term, bound)
		for k := 0; k < bound; k++ {
			vals[k] = c.Select(sa, c.BVBin("bvadd", src.Off, c.BVLit(uint64(k), 64)))
		}
		da0 := da
		for k := 0; k < bound; k++ {
			kk := c.BVLit(uint64(k), 64)
			ix := c.BVBin("bvadd", dst.Off, kk)
			// store of a conditional value (not a conditional array): keeps a pure store chain; the
			// old value is read from the array before the copy (the k-th index is written only here)
			da = c.Store(da, ix, c.Ite(c.BVCmp("bvult", kk, n), vals[k], c.Select(da0, ix)))
		}
		e.set(e.cur, cls, c.Store(mem, dst.Base, da))
		return &SVal{K: KScalar, Typ: intT, T: n}
	}
	nd := c.Fresh("copy", srt.E)
	k := c.Bound("k", BV64)
	inr := c.And(c.BVCmp("bvule", dst.Off, k), c.BVCmp("bvult", k, c.BVBin("bvadd", dst.Off, n)))
	body := c.Eq(c.Select(nd, k), c.Ite(inr, c.Select(sa, c.BVBin("bvadd", c.BVBin("bvsub", k, dst.Off), src.Off)), c.Select(da, k)))
	e.assumeFact(c.ForallPat([]*Term{k}, body, c.Select(nd, k)))
	e.set(e.cur, cls, c.Store(mem, dst.Base, nd))
	return &SVal{K: KScalar, Typ: intT, T: n}
}

func (e *Encoder) appendBuiltin(fr *frame, s, t *SVal, ci ssa.CallInstruction) *SVal {
	c := e.c
	st := ci.Value().Type()
	et := st.Underlying().(*types.Slice).Elem()
	cls := elemClass(et)
	if t.K == KOpaque {
		return s
	}
	var tlen *Term
	var tbase, toff *Term
	if t.K == KString {
		tlen, tbase, toff = t.Len, t.Base, t.Off
	} else {
		tlen, tbase, toff = t.Len, t.Base, t.Off
	}
	newLen := c.BVBin("bvadd", s.Len, tlen)
	fits := c.BVCmp("bvule", newLen, s.Cap)
	fresh := e.newAlloc()
	base := c.Ite(fits, s.Base, fresh)
	newCap := c.Ite(fits, s.Cap, c.Fresh("appendcap", BV64))
	e.assumeFact(c.And(c.BVCmp("bvule", newLen, newCap), c.BVCmp("bvule", newCap, c.BVLit(1<<maxLenBits, 64))))
	res := &SVal{K: KSlice, Typ: st, Base: base, Off: s.Off, Len: newLen, Cap: newCap}
	if cls == "" {
		// elements are aggregates / references: element locations are idx(base, i) cells.
		if tlen.IsLit() && tlen.V <= 8 {
			e.appendAgg(fr, s, t, res, et, fits, fresh, int(tlen.V))
			return res
		}
		e.subsetWarn("append of non-scalar elements with symbolic count abstracted")
		e.havocAll()
		return res
	}
	srt := Arr(RefS, Arr(BV64, scalarSort(et)))
	mem := e.get(e.cur, cls, srt)
	inner := c.Select(mem, s.Base) // same offsets are kept in the fresh object
	ta := c.Select(mem, tbase)
	if t.K == KString {
		ta = c.Select(e.get(e.cur, "mem:str", srt), tbase)
	}
	if tlen.IsLit() && tlen.V <= 64 {
		for k := uint64(0); k < tlen.V; k++ {
			kk := c.BVLit(k, 64)
			inner = c.Store(inner, c.BVBin("bvadd", c.BVBin("bvadd", s.Off, s.Len), kk), c.Select(ta, c.BVBin("bvadd", toff, kk)))
		}
	} else {
		nd := c.Fresh("append", srt.E)
		k := c.Bound("k", BV64)
		start := c.BVBin("bvadd", s.Off, s.Len)
		inr := c.And(c.BVCmp("bvule", start, k), c.BVCmp("bvult", k, c.BVBin("bvadd", start, tlen)))
		body := c.Eq(c.Select(nd, k), c.Ite(inr, c.Select(ta, c.BVBin("bvadd", c.BVBin("bvsub", k, start), toff)), c.Select(inner, k)))
		e.assumeFact(c.ForallPat([]*Term{k}, body, c.Select(nd, k)))
		inner = nd
	}
	if e.pure == 0 {
		// in-place append writes into the existing backing array
		allowed, have := e.topAssigns(fr)
		_ = allowed
		if have && !e.refIsFresh(s.Base) {
			saved := e.guard
			e.guard = c.And(e.guard, fits)
			e.frameCheckLoc(fr, assignLoc{prefix: cls, idx: s.Base}, ci.Pos(), "append in place")
			e.guard = saved
		}
	}
	e.set(e.cur, cls, c.Store(mem, base, inner))
	return res
}

// appendAgg appends n aggregate/reference elements. On reallocation the old
// elements are copied. The fresh object's cells have never been accessed, so
// instead of building new arrays the copy is expressed as an assumption about
// the (so far unconstrained) contents at the fresh refs.
func (e *Encoder) appendAgg(fr *frame, s, t, res *SVal, et types.Type, fits, fresh *Term, n int) {
	c := e.c
	var leaves []leafRef
	e.leafClasses(et, nil, &leaves)
	for _, lf := range leaves {
		for _, cp := range leafComps(lf.typ) {
			cl := lf.prefix + cp.suffix
			arr := e.get(e.cur, cl, Arr(RefS, cp.sort))
			k := c.Bound("k", BV64)
			from := lf.pathFrom(c, c.Idx(s.Base, k))
			to := lf.pathFrom(c, c.Idx(fresh, k))
			e.assume(c.Forall([]*Term{k}, c.Eq(c.Select(arr, to), c.Select(arr, from))))
		}
	}
	for j := 0; j < n; j++ {
		src := e.load(e.cur, e.elemAddr(t.Base, c.BVBin("bvadd", t.Off, c.BVLit(uint64(j), 64)), et))
		dst := e.elemAddr(res.Base, c.BVBin("bvadd", c.BVBin("bvadd", s.Off, s.Len), c.BVLit(uint64(j), 64)), et)
		e.store(e.cur, dst, src)
	}
}

type leafRef struct {
	prefix string
	typ    types.Type
	path   []int // field path from the element ref
}

func (lf leafRef) pathFrom(c *Ctx, r *Term) *Term {
	// leaf arrays are indexed by the ref of the *containing* struct (or the cell ref)
	for _, f := range lf.path {
		r = c.Sub(r, f)
	}
	return r
}

func (e *Encoder) leafClasses(t types.Type, path []int, out *[]leafRef) {
	switch u := t.Underlying().(type) {
	case *types.Struct:
		for i := 0; i < u.NumFields(); i++ {
			ft := u.Field(i).Type()
			if isAggregate(ft) {
				e.leafClasses(ft, append(append([]int{}, path...), i), out)
			} else {
				*out = append(*out, leafRef{prefix: structKey(t) + "." + u.Field(i).Name(), typ: ft, path: append([]int{}, path...)})
			}
		}
	case *types.Array:
		e.subsetWarn("array inside appended aggregate not modelled")
	default:
		*out = append(*out, leafRef{prefix: "cell:" + typeKey(t), typ: t, path: append([]int{}, path...)})
	}
}

// ---- native models of dependency functions ------------------------------------------------------

type nativeFn func(e *Encoder, fr *frame, args []*SVal, ci ssa.CallInstruction, resT types.Type) *SVal

var nativeModels map[string]nativeFn

func (e *Encoder) nonNilError(prefix string) *SVal {
	c := e.c
	v := e.freshVal(prefix, types.Universe.Lookup("error").Type())
	e.assumeFact(c.Not(c.Eq(v.Tag, c.Int(0))))
	// every errors.New / fmt.Errorf result is a distinct new object
	v.T = e.newAlloc()
	return v
}

func init() {
	nativeModels = map[string]nativeFn{
		"fmt.Errorf": func(e *Encoder, fr *frame, args []*SVal, ci ssa.CallInstruction, resT types.Type) *SVal {
			return e.nonNilError("err")
		},
		"errors.New": func(e *Encoder, fr *frame, args []*SVal, ci ssa.CallInstruction, resT types.Type) *SVal {
			return e.nonNilError("err")
		},
		"fmt.Sprintf": func(e *Encoder, fr *frame, args []*SVal, ci ssa.CallInstruction, resT types.Type) *SVal {
			return e.freshResult("sprintf", resT)
		},
		"math.Floor": func(e *Encoder, fr *frame, args []*SVal, ci ssa.CallInstruction, resT types.Type) *SVal {
			r := &SVal{K: KScalar, Typ: types.Typ[types.Float64], T: e.realFloor(args[0].T)}
			if args[0].Rat != nil {
				r.Rat = e.ratFloor(args[0].Rat, false)
			}
			return r
		},
		"math.Ceil": func(e *Encoder, fr *frame, args []*SVal, ci ssa.CallInstruction, resT types.Type) *SVal {
			c := e.c
			neg := c.mk(&Term{Op: "-", Args: []*Term{args[0].T}, S: RealS})
			r := &SVal{K: KScalar, Typ: types.Typ[types.Float64], T: c.mk(&Term{Op: "-", Args: []*Term{e.realFloor(neg)}, S: RealS})}
			if args[0].Rat != nil {
				r.Rat = e.ratFloor(args[0].Rat, true)
			}
			return r
		},
		"(cipher.Block).BlockSize": func(e *Encoder, fr *frame, args []*SVal, ci ssa.CallInstruction, resT types.Type) *SVal {
			// every cipher.Block in this code base comes from crypto/aes.NewCipher
			return &SVal{K: KScalar, Typ: types.Typ[types.Int], T: e.c.BVLit(16, 64)}
		},
		"crypto/cipher.NewCBCDecrypter": func(e *Encoder, fr *frame, args []*SVal, ci ssa.CallInstruction, resT types.Type) *SVal {
			return e.newCBC(fr, args, ci, resT, true)
		},
		"crypto/cipher.NewCBCEncrypter": func(e *Encoder, fr *frame, args []*SVal, ci ssa.CallInstruction, resT types.Type) *SVal {
			return e.newCBC(fr, args, ci, resT, false)
		},
		"(cipher.BlockMode).CryptBlocks": func(e *Encoder, fr *frame, args []*SVal, ci ssa.CallInstruction, resT types.Type) *SVal {
			return e.cryptBlocks(fr, args, ci, resT)
		},
		"crypto/aes.NewCipher": func(e *Encoder, fr *frame, args []*SVal, ci ssa.CallInstruction, resT types.Type) *SVal {
			c := e.c
			key := args[0]
			okLen := c.Or(c.Eq(key.Len, c.BVLit(16, 64)), c.Eq(key.Len, c.BVLit(24, 64)), c.Eq(key.Len, c.BVLit(32, 64)))
			tt := resT.(*types.Tuple)
			blk := e.freshVal("aesblock", tt.At(0).Type())
			errv := e.freshVal("aeserr", tt.At(1).Type())
			e.assume(c.Eq(c.Eq(errv.Tag, c.Int(0)), okLen))
			e.assume(c.Implies(okLen, c.Not(c.Eq(blk.Tag, c.Int(0)))))
			// ghost: the key bytes of the block (first 16 bytes)
			mem := e.get(e.cur, "mem:bv8", Arr(RefS, Arr(BV64, BV8)))
			karr := c.Select(mem, key.Base)
			for k := 0; k < 16; k++ {
				kk := c.BVLit(uint64(k), 64)
				e.assume(c.Eq(c.Select(c.App("aesKeyOf", Arr(BV64, BV8), blk.T), kk), c.Select(karr, c.BVBin("bvadd", key.Off, kk))))
			}
			return &SVal{K: KTuple, Typ: resT, Fields: []*SVal{blk, errv}}
		},
		"crypto/rand.Read": func(e *Encoder, fr *frame, args []*SVal, ci ssa.CallInstruction, resT types.Type) *SVal {
			c := e.c
			b := args[0]
			if e.pure == 0 {
				e.frameCheckLoc(fr, assignLoc{prefix: "mem:bv8", idx: b.Base}, ci.Pos(), "rand.Read")
			}
			// fills all of b with the next draw of the random stream; never fails
			e.randDraws++
			draw := c.Sym(fmt.Sprintf("rand.draw%d", e.randDraws), Arr(BV64, BV8))
			mem := e.get(e.cur, "mem:bv8", Arr(RefS, Arr(BV64, BV8)))
			old := c.Select(mem, b.Base)
			nd := c.Fresh("randfill", Arr(BV64, BV8))
			k := c.Bound("k", BV64)
			inr := c.And(c.BVCmp("bvule", b.Off, k), c.BVCmp("bvult", k, c.BVBin("bvadd", b.Off, b.Len)))
			e.assumeFact(c.ForallPat([]*Term{k}, c.Eq(c.Select(nd, k), c.Ite(inr, c.Select(draw, c.BVBin("bvsub", k, b.Off)), c.Select(old, k))), c.Select(nd, k)))
			e.set(e.cur, "mem:bv8", c.Store(mem, b.Base, nd))
			// ghost: how many times a random draw has been written starting at this position
			key := c.Idx(b.Base, b.Off)
			rf := e.get(e.cur, "ghost:randfill", Arr(RefS, BV64))
			e.set(e.cur, "ghost:randfill", c.Store(rf, key, c.BVBin("bvadd", c.Select(rf, key), c.BVLit(1, 64))))
			tt := resT.(*types.Tuple)
			return &SVal{K: KTuple, Typ: resT, Fields: []*SVal{{K: KScalar, Typ: tt.At(0).Type(), T: b.Len}, e.zero(tt.At(1).Type())}}
		},
		"(hash.Hash).Write": func(e *Encoder, fr *frame, args []*SVal, ci ssa.CallInstruction, resT types.Type) *SVal {
			c := e.c
			h, p := args[0], args[1]
			st := e.hashState(h)
			mem := e.get(e.cur, "mem:bv8", Arr(RefS, Arr(BV64, BV8)))
			arr := c.Select(mem, p.Base)
			ns := e.hashAbsorb(st, arr, p.Off, p.Len)
			e.setHashState(fr, h, ns, ci)
			tt := resT.(*types.Tuple)
			return &SVal{K: KTuple, Typ: resT, Fields: []*SVal{{K: KScalar, Typ: tt.At(0).Type(), T: p.Len}, e.zero(tt.At(1).Type())}}
		},
		"(hash.Hash).Reset": func(e *Encoder, fr *frame, args []*SVal, ci ssa.CallInstruction, resT types.Type) *SVal {
			h := args[0]
			obj, _ := e.hashObjOf(h, e.cur)
			e.setHashState(fr, h, e.c.App("hInit", IntS, obj), ci)
			return &SVal{K: KTuple, Typ: resT}
		},
		"(hash.Hash).Size": func(e *Encoder, fr *frame, args []*SVal, ci ssa.CallInstruction, resT types.Type) *SVal {
			return &SVal{K: KScalar, Typ: types.Typ[types.Int], T: e.hashSize(args[0])}
		},
		"(hash.Hash).BlockSize": func(e *Encoder, fr *frame, args []*SVal, ci ssa.CallInstruction, resT types.Type) *SVal {
			r := e.freshVal("blocksize", types.Typ[types.Int])
			e.assumeFact(e.c.And(e.c.BVCmp("bvslt", e.c.BVLit(0, 64), r.T), e.c.BVCmp("bvsle", r.T, e.c.BVLit(256, 64))))
			return r
		},
		"(hash.Hash).Sum": func(e *Encoder, fr *frame, args []*SVal, ci ssa.CallInstruction, resT types.Type) *SVal {
			c := e.c
			h, b := args[0], args[1]
			st := e.hashState(h)
			size := e.hashSize(h)
			dig := c.App("hDigest", Arr(BV64, BV8), st)
			ref := e.newAlloc()
			mem := e.get(e.cur, "mem:bv8", Arr(RefS, Arr(BV64, BV8)))
			var content *Term
			if b.Len.IsLit() && b.Len.V == 0 {
				content = dig
			} else {
				barr := c.Select(mem, b.Base)
				content = c.Fresh("sum", Arr(BV64, BV8))
				k := c.Bound("k", BV64)
				e.assumeFact(c.ForallPat([]*Term{k}, c.Eq(c.Select(content, k), c.Ite(c.BVCmp("bvult", k, b.Len), c.Select(barr, c.BVBin("bvadd", b.Off, k)), c.Select(dig, c.BVBin("bvsub", k, b.Len)))), c.Select(content, k)))
			}
			n := c.BVBin("bvadd", b.Len, size)
			if b.Cap.IsLit() && b.Cap.V == 0 {
				// Sum(nil): always a new array
				e.set(e.cur, "mem:bv8", c.Store(mem, ref, content))
				return &SVal{K: KSlice, Typ: resT, Base: ref, Off: c.BVLit(0, 64), Len: n, Cap: n}
			}
			// Sum(b) appends: in place when b has room for the digest (the result then shares b's array,
			// and the bytes after b are overwritten), into a new array otherwise
			fits := c.BVCmp("bvule", n, b.Cap)
			saved := e.guard
			e.guard = c.And(e.guard, fits)
			e.frameCheckLoc(fr, assignLoc{all: true, ref: b.Base, typ: types.NewArray(types.Typ[types.Uint8], 0)}, ci.Pos(), "hash.Sum into a slice with spare capacity")
			e.guard = saved
			barr := c.Select(mem, b.Base)
			inplace := c.Fresh("sumip", Arr(BV64, BV8))
			k := c.Bound("k", BV64)
			lo := c.BVBin("bvadd", b.Off, b.Len)
			e.assumeFact(c.ForallPat([]*Term{k}, c.Eq(c.Select(inplace, k),
				c.Ite(c.And(c.BVCmp("bvule", lo, k), c.BVCmp("bvult", k, c.BVBin("bvadd", lo, size))), c.Select(dig, c.BVBin("bvsub", k, lo)), c.Select(barr, k))), c.Select(inplace, k)))
			e.set(e.cur, "mem:bv8", c.Ite(fits, c.Store(mem, b.Base, inplace), c.Store(mem, ref, content)))
			return &SVal{K: KSlice, Typ: resT, Base: c.Ite(fits, b.Base, ref), Off: c.Ite(fits, b.Off, c.BVLit(0, 64)), Len: n, Cap: c.Ite(fits, b.Cap, n)}
		},
		"time.Unix": func(e *Encoder, fr *frame, args []*SVal, ci ssa.CallInstruction, resT types.Type) *SVal {
			// the result is an opaque time.Time denoting sec seconds + nsec nanoseconds after the epoch
			c := e.c
			t := e.freshVal("time", resT)
			sec, ns := e.timeParts(t)
			inRange := c.And(c.BVCmp("bvsle", c.BVLit(0, 64), args[1].T), c.BVCmp("bvslt", args[1].T, c.BVLit(1000000000, 64)))
			e.assumeFact(c.Implies(inRange, c.And(c.Eq(sec, args[0].T), c.Eq(ns, args[1].T))))
			e.trusted["time.Unix / Time.Unix / Time.Before / After / Equal: a time.Time denotes (seconds, nanoseconds) since the epoch"] = true
			return t
		},
		"(time.Time).Unix": func(e *Encoder, fr *frame, args []*SVal, ci ssa.CallInstruction, resT types.Type) *SVal {
			sec, _ := e.timeParts(args[0])
			return &SVal{K: KScalar, Typ: types.Typ[types.Int64], T: sec}
		},
		"(time.Time).Before": func(e *Encoder, fr *frame, args []*SVal, ci ssa.CallInstruction, resT types.Type) *SVal {
			c := e.c
			s1, n1 := e.timeParts(args[0])
			s2, n2 := e.timeParts(args[1])
			return &SVal{K: KScalar, Typ: types.Typ[types.Bool], T: c.Or(c.BVCmp("bvslt", s1, s2), c.And(c.Eq(s1, s2), c.BVCmp("bvslt", n1, n2)))}
		},
		"(time.Time).After": func(e *Encoder, fr *frame, args []*SVal, ci ssa.CallInstruction, resT types.Type) *SVal {
			c := e.c
			s1, n1 := e.timeParts(args[1])
			s2, n2 := e.timeParts(args[0])
			return &SVal{K: KScalar, Typ: types.Typ[types.Bool], T: c.Or(c.BVCmp("bvslt", s1, s2), c.And(c.Eq(s1, s2), c.BVCmp("bvslt", n1, n2)))}
		},
		"(time.Time).Equal": func(e *Encoder, fr *frame, args []*SVal, ci ssa.CallInstruction, resT types.Type) *SVal {
			c := e.c
			s1, n1 := e.timeParts(args[0])
			s2, n2 := e.timeParts(args[1])
			return &SVal{K: KScalar, Typ: types.Typ[types.Bool], T: c.And(c.Eq(s1, s2), c.Eq(n1, n2))}
		},
		"(time.Duration).Seconds": func(e *Encoder, fr *frame, args []*SVal, ci ssa.CallInstruction, resT types.Type) *SVal {
			return e.durationQuot(args[0], 1000000000)
		},
		"(time.Duration).Minutes": func(e *Encoder, fr *frame, args []*SVal, ci ssa.CallInstruction, resT types.Type) *SVal {
			return e.durationQuot(args[0], 60*1000000000)
		},
		"(time.Duration).Hours": func(e *Encoder, fr *frame, args []*SVal, ci ssa.CallInstruction, resT types.Type) *SVal {
			return e.durationQuot(args[0], 3600*1000000000)
		},
		"(gopacket.DecodeFeedback).SetTruncated": func(e *Encoder, fr *frame, args []*SVal, ci ssa.CallInstruction, resT types.Type) *SVal {
			return &SVal{K: KTuple, Typ: resT}
		},
		"crypto/hmac.New": func(e *Encoder, fr *frame, args []*SVal, ci ssa.CallInstruction, resT types.Type) *SVal {
			// a new hash object whose initial absorb state is determined by the hash constructor and the key bytes
			c := e.c
			e.trusted["crypto/hmac.New(h, key): a new hash.Hash whose digests are a function of h, the bytes of key and the bytes written (HMAC itself is not modelled); sizes 20/32/16 for sha1/sha256/md5"] = true
			hgen, key := args[0], args[1]
			r := e.freshVal("hmac", resT)
			r.T = e.newAlloc()
			e.assumeFact(c.Not(c.Eq(r.Tag, c.Int(0))))
			for _, W := range e.hashWrappers() {
				e.assumeFact(c.Not(c.Eq(r.Tag, c.Int(int64(e.w.typeTag(W))))))
			}
			mem := e.get(e.cur, "mem:bv8", Arr(RefS, Arr(BV64, BV8)))
			tag := hgen.Tag
			if hgen.Fn != nil {
				tag = e.fnTag(hgen.Fn)
			}
			c.contentUF("hKeyed", 1)
			init := c.App("hKeyed", IntS, tag, c.Select(mem, key.Base), key.Off, key.Len)
			e.assumeFact(c.Eq(c.App("hInit", IntS, r.T), init))
			sz := c.App("hSize", BV64, r.T)
			e.ufAxiomSeen[sz] = true
			szv := e.hashLenOfTag(tag)
			e.assumeFact(c.And(c.Eq(sz, szv), c.BVCmp("bvule", c.BVLit(1, 64), sz), c.BVCmp("bvule", sz, c.BVLit(64, 64))))
			arr := e.get(e.cur, "ghost:hash#st", Arr(RefS, IntS))
			e.set(e.cur, "ghost:hash#st", c.Store(arr, r.T, init))
			return r
		},
		"crypto/hmac.Equal": func(e *Encoder, fr *frame, args []*SVal, ci ssa.CallInstruction, resT types.Type) *SVal {
			c := e.c
			a, b := args[0], args[1]
			mem := e.get(e.cur, "mem:bv8", Arr(RefS, Arr(BV64, BV8)))
			k := c.Bound("k", BV64)
			body := c.Implies(c.BVCmp("bvult", k, a.Len), c.Eq(c.Select(c.Select(mem, a.Base), c.BVBin("bvadd", a.Off, k)), c.Select(c.Select(mem, b.Base), c.BVBin("bvadd", b.Off, k))))
			return &SVal{K: KScalar, Typ: types.Typ[types.Bool], T: c.And(c.Eq(a.Len, b.Len), c.Forall([]*Term{k}, body))}
		},
	}
}

// ---- native spec functions (folds that cannot be inlined) -----------------------------------------

type nativeSpecFn func(env *Env, n *ast.CallExpr, args []*SVal) *SVal

var nativeSpec map[string]nativeSpecFn

func init() {
	nativeSpec = map[string]nativeSpecFn{
		"bufValid": func(env *Env, n *ast.CallExpr, args []*SVal) *SVal {
			return env.mkBool(env.e.bufValid(args[0], env.state(), 1<<36))
		},
		"bufSmall": func(env *Env, n *ast.CallExpr, args []*SVal) *SVal {
			return env.mkBool(env.e.bufValid(args[0], env.state(), 1<<26))
		},
		"sends": func(env *Env, n *ast.CallExpr, args []*SVal) *SVal {
			e := env.e
			g := e.get(env.state(), "ghost:sends", Arr(RefS, BV64))
			return &SVal{K: KScalar, Typ: types.Typ[types.Int], T: e.c.Select(g, e.c.NilRef())}
		},
		"randFills": func(env *Env, n *ast.CallExpr, args []*SVal) *SVal {
			// randFills(s): number of crypto/rand.Read calls so far that wrote a draw starting at s[0]
			e := env.e
			rf := e.get(env.state(), "ghost:randfill", Arr(RefS, BV64))
			return &SVal{K: KScalar, Typ: types.Typ[types.Int], T: e.c.Select(rf, e.c.Idx(args[0].Base, args[0].Off))}
		},
		"lastSendFailed": func(env *Env, n *ast.CallExpr, args []*SVal) *SVal {
			// the most recent transport.Send returned an error
			e := env.e
			g := e.get(env.state(), "ghost:sends", Arr(RefS, BV64))
			return env.mkBool(e.c.Eq(e.c.Select(g, e.c.Sub(e.c.NilRef(), 1)), e.c.BVLit(1, 64)))
		},
		"metric": func(env *Env, n *ast.CallExpr, args []*SVal) *SVal {
			e := env.e
			if t := args[0].T; t.Op == "app" && t.Name == "metricChild" {
				// a child of a vector held in a package-level variable
				g := e.get(env.state(), "ghost:metricvec", Arr(RefS, Arr(RefS, BV64)))
				return &SVal{K: KScalar, Typ: types.Typ[types.Int], T: e.c.Select(e.c.Select(g, t.Args[0]), t.Args[1])}
			}
			g := e.get(env.state(), "ghost:metric", Arr(RefS, BV64))
			return &SVal{K: KScalar, Typ: types.Typ[types.Int], T: e.c.Select(g, args[0].T)}
		},
		"ctxChildOf": func(env *Env, n *ast.CallExpr, args []*SVal) *SVal {
			// ctxChildOf(c, p): c was derived from p by context.WithTimeout (it has a deadline and is done whenever p is)
			c := env.e.c
			return env.mkBool(c.And(c.Eq(c.App("ctxParent", RefS, args[0].T), args[1].T), c.App("ctxHasDeadline", BoolS, args[0].T)))
		},
		"backoffBoundTo": func(env *Env, n *ast.CallExpr, args []*SVal) *SVal {
			// backoffBoundTo(b, ctx): b is backoff.WithContext(_, ctx): it stops retrying once ctx is done
			c := env.e.c
			return env.mkBool(c.Eq(c.App("backoffCtx", RefS, args[0].T), args[1].T))
		},
		"ctxHasDeadline": func(env *Env, n *ast.CallExpr, args []*SVal) *SVal {
			return env.mkBool(env.e.c.App("ctxHasDeadline", BoolS, args[0].T))
		},
		"socketDeadlineIs": func(env *Env, n *ast.CallExpr, args []*SVal) *SVal {
			// socketDeadlineIs(conn, "Write"|"Read", ctx): the socket's deadline of that kind is ctx's deadline
			e := env.e
			c := e.c
			kind := ""
			if cv, ok := env.info.Types[n.Args[1]]; ok && cv.Value != nil {
				kind = constant.StringVal(cv.Value)
			}
			s1 := e.get(env.state(), "ghost:deadline"+kind+"#sec", Arr(RefS, BV64))
			s2 := e.get(env.state(), "ghost:deadline"+kind+"#nsec", Arr(RefS, BV64))
			sock := c.Sub(args[0].T, 0) // the net.conn embedded in the *net.UDPConn, on which the deadline methods are declared
			return env.mkBool(c.And(c.Eq(c.Select(s1, sock), c.App("ctxDeadlineSec", BV64, args[2].T)), c.Eq(c.Select(s2, sock), c.App("ctxDeadlineNsec", BV64, args[2].T))))
		},
		"hasKey": func(env *Env, n *ast.CallExpr, args []*SVal) *SVal {
			// hasKey(m, k): the map has an entry for key k
			e := env.e
			c := e.c
			m, k := args[0], args[1]
			mt, ok := m.Typ.Underlying().(*types.Map)
			if !ok {
				panic(contractError{fmt.Errorf("hasKey: not a map")})
			}
			cls, ks, ok := e.mapClasses(mt)
			if !ok {
				panic(contractError{fmt.Errorf("hasKey: key type of %s is not modelled", mt)})
			}
			h := e.get(env.state(), cls+"#has", Arr(RefS, Arr(ks, BoolS)))
			return env.mkBool(c.Select(c.Select(h, m.T), e.mapKeyTerm(e.coerce(k, mt.Key()), mt.Key())))
		},
		"bufWrites": func(env *Env, n *ast.CallExpr, args []*SVal) *SVal {
			// bufWrites(&b): number of Write calls made on the bytes.Buffer b since it was created
			e := env.e
			g := e.get(env.state(), "ghost:bufwrites", Arr(RefS, BV64))
			return &SVal{K: KScalar, Typ: types.Typ[types.Int], T: e.c.Select(g, args[0].T)}
		},
		"bufLen": func(env *Env, n *ast.CallExpr, args []*SVal) *SVal {
			// bufLen(&b): number of bytes written to the bytes.Buffer b since it was created
			e := env.e
			g := e.get(env.state(), "ghost:buflen", Arr(RefS, BV64))
			return &SVal{K: KScalar, Typ: types.Typ[types.Int], T: e.c.Select(g, args[0].T)}
		},
		"mapLenSum": func(env *Env, n *ast.CallExpr, args []*SVal) *SVal {
			// mapLenSum(m): the sum of the lengths of the slices stored in a map - an uninterpreted function
			// of the map's key set and of the stored lengths, of which only this is known: it is not negative,
			// and it is positive exactly when some entry is not empty. (Mathematical integers: the sum is
			// assumed not to overflow an int.)
			e := env.e
			c := e.c
			m := args[0]
			mt, ok := m.Typ.Underlying().(*types.Map)
			if !ok {
				panic(contractError{fmt.Errorf("mapLenSum: not a map")})
			}
			if _, isSlice := mt.Elem().Underlying().(*types.Slice); !isSlice {
				panic(contractError{fmt.Errorf("mapLenSum: the values of %s are not slices", mt)})
			}
			cls, ks, ok := e.mapClasses(mt)
			if !ok {
				panic(contractError{fmt.Errorf("mapLenSum: key type of %s is not modelled", mt)})
			}
			h := c.Select(e.get(env.state(), cls+"#has", Arr(RefS, Arr(ks, BoolS))), m.T)
			l := c.Select(e.get(env.state(), cls+"#val#len", Arr(RefS, Arr(ks, BV64))), m.T)
			sum := c.App("mapLenSum:"+cls, BV64, h, l)
			k := c.Bound("mk", ks)
			some := c.Exists([]*Term{k}, c.And(c.Select(h, k), c.BVCmp("bvsgt", c.Select(l, k), c.BVLit(0, 64))))
			e.assumeFact(c.BVCmp("bvsge", sum, c.BVLit(0, 64)))
			e.assumeFact(c.Eq(c.BVCmp("bvsgt", sum, c.BVLit(0, 64)), some))
			e.trusted["mapLenSum(m) (sum of the lengths of a map's slices) is characterised only as: non-negative, and positive exactly when some entry is non-empty; the sum is assumed not to overflow"] = true
			return &SVal{K: KScalar, Typ: types.Typ[types.Int], T: sum}
		},
		"metricvec": func(env *Env, n *ast.CallExpr, args []*SVal) *SVal {
			// value of the child of a metric vector for a label (labels are identified by their string object)
			e := env.e
			g := e.get(env.state(), "ghost:metricvec", Arr(RefS, Arr(RefS, BV64)))
			return &SVal{K: KScalar, Typ: types.Typ[types.Int], T: e.c.Select(e.c.Select(g, args[0].T), args[1].Base)}
		},
		"metricsOnly": func(env *Env, n *ast.CallExpr, args []*SVal) *SVal {
			// every metric and every child of every metric vector other than the listed ones has its entry value
			e := env.e
			c := e.c
			r := c.Bound("mr", RefS)
			var not []*Term
			for _, a := range args {
				if a.T.Op == "app" && a.T.Name == "metricChild" {
					not = append(not, c.Not(c.Eq(r, a.T.Args[0]))) // the child's vector
					continue
				}
				not = append(not, c.Not(c.Eq(r, a.T)))
			}
			g1, o1 := e.get(env.st, "ghost:metric", Arr(RefS, BV64)), e.get(env.old, "ghost:metric", Arr(RefS, BV64))
			g2, o2 := e.get(env.st, "ghost:metricvec", Arr(RefS, Arr(RefS, BV64))), e.get(env.old, "ghost:metricvec", Arr(RefS, Arr(RefS, BV64)))
			body := c.Implies(c.And(not...), c.And(c.Eq(c.Select(g1, r), c.Select(o1, r)), c.Eq(c.Select(g2, r), c.Select(o2, r))))
			if len(args) == 0 {
				return env.mkBool(c.And(c.Eq(g1, o1), c.Eq(g2, o2)))
			}
			return env.mkBool(c.Forall([]*Term{r}, body))
		},
		"bufRoom": func(env *Env, n *ast.CallExpr, args []*SVal) *SVal {
			// bufRoom(b, front, back): no reallocation is needed to prepend front / append back bytes
			e := env.e
			c := e.c
			data := e.sbufField(args[0], env.state(), "data")
			start := e.sbufField(args[0], env.state(), "start").T
			front := c.Resize(args[1].T, 64, true)
			back := c.Resize(args[2].T, 64, true)
			return env.mkBool(c.And(c.BVCmp("bvsle", front, start), c.BVCmp("bvsle", back, c.BVBin("bvsub", data.Cap, data.Len))))
		},
		"bufMedium": func(env *Env, n *ast.CallExpr, args []*SVal) *SVal {
			return env.mkBool(env.e.bufValid(args[0], env.state(), 1<<31))
		},
		"isnew": func(env *Env, n *ast.CallExpr, args []*SVal) *SVal {
			e := env.e
			c := e.c
			x := args[0]
			if env.callSite {
				// at a call site the caller hands out a fresh object identity
				return env.mkBool(c.Eq(x.Base, e.newAlloc()))
			}
			return env.mkBool(c.And(c.IsRoot(x.Base), c.IntLe(e.A0, c.RootID(x.Base))))
		},
		"isnewmap": func(env *Env, n *ast.CallExpr, args []*SVal) *SVal {
			// isnewmap(m): the map was made by this call
			e := env.e
			c := e.c
			x := args[0]
			if env.callSite {
				return env.mkBool(c.Eq(x.T, e.newAlloc()))
			}
			return env.mkBool(c.NewObject(x.T, e.A0, 0))
		},
		"isnewobj": func(env *Env, n *ast.CallExpr, args []*SVal) *SVal {
			// isnewobj(p): p points to an object allocated by this call (the caller may then rely on
			// nothing else reaching it)
			e := env.e
			c := e.c
			x := args[0]
			if env.callSite {
				// the result lies in (or is) an object with a fresh identity of the caller's
				r := e.newAlloc()
				if pt, ok := x.Typ.Underlying().(*types.Pointer); ok && e.pure == 0 && len(e.loopRefSyms) == 0 {
					e.tracked = append(e.tracked, trackedObj{x.T, pt.Elem()})
				}
				return env.mkBool(c.InObject(x.T, r, 3))
			}
			return env.mkBool(c.NewObject(x.T, e.A0, 3))
		},
		"window": func(env *Env, n *ast.CallExpr, args []*SVal) *SVal {
			// window(s, t, lo, hi): s is exactly t[lo:hi], also when empty (same array, same start)
			c := env.e.c
			s, t := args[0], args[1]
			lo := c.Resize(args[2].T, 64, true)
			hi := c.Resize(args[3].T, 64, true)
			return env.mkBool(c.And(c.Eq(s.Base, t.Base), c.Eq(s.Off, c.BVBin("bvadd", t.Off, lo)), c.Eq(s.Len, c.BVBin("bvsub", hi, lo)),
				c.BVCmp("bvsle", c.BVLit(0, 64), lo), c.BVCmp("bvsle", lo, hi), c.BVCmp("bvsle", hi, t.Cap)))
		},
		// ---- hash ghost (see the comment above hashState) ----
		"hState": func(env *Env, n *ast.CallExpr, args []*SVal) *SVal {
			e := env.e
			obj, _ := e.hashObjOf(args[0], env.state())
			arr := e.get(env.state(), "ghost:hash#st", Arr(RefS, IntS))
			return &SVal{K: KScalar, Typ: types.Typ[types.Int], T: e.c.Select(arr, obj)}
		},
		"hInit": func(env *Env, n *ast.CallExpr, args []*SVal) *SVal {
			e := env.e
			obj, _ := e.hashObjOf(args[0], env.state())
			return &SVal{K: KScalar, Typ: types.Typ[types.Int], T: e.c.App("hInit", IntS, obj)}
		},
		"hSizeOf": func(env *Env, n *ast.CallExpr, args []*SVal) *SVal {
			e := env.e
			obj, trunc := e.hashObjOf(args[0], env.state())
			if trunc != nil {
				return &SVal{K: KScalar, Typ: types.Typ[types.Int], T: trunc}
			}
			return &SVal{K: KScalar, Typ: types.Typ[types.Int], T: e.hashSizeObj(obj)}
		},
		"hAbsorb": func(env *Env, n *ast.CallExpr, args []*SVal) *SVal {
			e := env.e
			mem := e.get(env.state(), "mem:bv8", Arr(RefS, Arr(BV64, BV8)))
			return &SVal{K: KScalar, Typ: types.Typ[types.Int], T: e.hashAbsorb(args[0].T, e.c.Select(mem, args[1].Base), args[1].Off, args[1].Len)}
		},
		"hAbsorbStr": func(env *Env, n *ast.CallExpr, args []*SVal) *SVal {
			e := env.e
			mem := e.get(env.state(), "mem:str", Arr(RefS, Arr(BV64, BV8)))
			return &SVal{K: KScalar, Typ: types.Typ[types.Int], T: e.hashAbsorb(args[0].T, e.c.Select(mem, args[1].Base), args[1].Off, args[1].Len)}
		},
		"hAbsorbByte": func(env *Env, n *ast.CallExpr, args []*SVal) *SVal {
			e := env.e
			return &SVal{K: KScalar, Typ: types.Typ[types.Int], T: e.c.App("hAbsorb1", IntS, args[0].T, e.c.Resize(args[1].T, 8, false))}
		},
		"hIsDigest": func(env *Env, n *ast.CallExpr, args []*SVal) *SVal {
			// the bytes of b are the leading bytes of the digest of absorb state st
			e := env.e
			c := e.c
			b := args[0]
			mem := e.get(env.state(), "mem:bv8", Arr(RefS, Arr(BV64, BV8)))
			dig := c.App("hDigest", Arr(BV64, BV8), args[1].T)
			k := c.Bound("k", BV64)
			sel := c.Select(c.Select(mem, b.Base), c.BVBin("bvadd", b.Off, k))
			return env.mkBool(c.ForallPat([]*Term{k}, c.Implies(c.BVCmp("bvult", k, b.Len), c.Eq(sel, c.Select(dig, k))), sel))
		},
		"hmacKeyed": func(env *Env, n *ast.CallExpr, args []*SVal) *SVal {
			// initial absorb state of an HMAC over the named hash constructor, keyed with the bytes of key
			e := env.e
			fn := env.constFunc(n, args, 0)
			key := args[1]
			mem := e.get(env.state(), "mem:bv8", Arr(RefS, Arr(BV64, BV8)))
			return &SVal{K: KScalar, Typ: types.Typ[types.Int], T: e.c.App("hKeyed", IntS, e.fnTag(fn), e.c.Select(mem, key.Base), key.Off, key.Len)}
		},
		"aesKeyByte": func(env *Env, n *ast.CallExpr, args []*SVal) *SVal {
			// byte k of the AES key a cipher.Block was created with (ghost of aes.NewCipher)
			e := env.e
			return &SVal{K: KScalar, Typ: types.Typ[types.Uint8], T: e.c.Select(e.c.App("aesKeyOf", Arr(BV64, BV8), args[0].T), e.c.Resize(args[1].T, 64, true))}
		},
		"hDigestByte": func(env *Env, n *ast.CallExpr, args []*SVal) *SVal {
			e := env.e
			return &SVal{K: KScalar, Typ: types.Typ[types.Uint8], T: e.c.Select(e.c.App("hDigest", Arr(BV64, BV8), args[0].T), e.c.Resize(args[1].T, 64, true))}
		},
		"unchanged": func(env *Env, n *ast.CallExpr, args []*SVal) *SVal {
			// unchanged(x): every field of the addressable value x (slice and string fields: their
			// headers) holds the value it had on entry
			e := env.e
			if n == nil {
				panic(contractError{fmt.Errorf("unchanged() is only available in contract clauses")})
			}
			a := env.addr(n.Args[0])
			return env.mkBool(e.deepEq(e.load(env.st, a), e.load(env.old, a)))
		},
		"isPlainHash": func(env *Env, n *ast.CallExpr, args []*SVal) *SVal {
			// the hash.Hash is not one of the module's wrapper types
			e := env.e
			c := e.c
			h := args[0]
			var parts []*Term
			for _, W := range e.hashWrappers() {
				parts = append(parts, c.Not(c.Eq(h.Tag, c.Int(int64(e.w.typeTag(W))))))
			}
			return env.mkBool(c.And(parts...))
		},
		"hmacKeyedBy": func(env *Env, n *ast.CallExpr, args []*SVal) *SVal {
			// as hmacKeyed, the hash constructor given as a function value
			e := env.e
			fv, key := args[0], args[1]
			tag := fv.Tag
			if fv.Fn != nil {
				tag = e.fnTag(fv.Fn)
			}
			mem := e.get(env.state(), "mem:bv8", Arr(RefS, Arr(BV64, BV8)))
			e.c.contentUF("hKeyed", 1)
			return &SVal{K: KScalar, Typ: types.Typ[types.Int], T: e.c.App("hKeyed", IntS, tag, e.c.Select(mem, key.Base), key.Off, key.Len)}
		},
		"hashLenBy": func(env *Env, n *ast.CallExpr, args []*SVal) *SVal {
			e := env.e
			fv := args[0]
			tag := fv.Tag
			if fv.Fn != nil {
				tag = e.fnTag(fv.Fn)
			}
			return &SVal{K: KScalar, Typ: types.Typ[types.Int], T: e.hashLenOfTag(tag)}
		},
		"hmacKeyedDigest": func(env *Env, n *ast.CallExpr, args []*SVal) *SVal {
			// as hmacKeyed, the key being the first n bytes of the digest of absorb state st
			e := env.e
			fn := env.constFunc(n, args, 0)
			dig := e.c.App("hDigest", Arr(BV64, BV8), args[1].T)
			return &SVal{K: KScalar, Typ: types.Typ[types.Int], T: e.c.App("hKeyed", IntS, e.fnTag(fn), dig, e.c.BVLit(0, 64), e.c.Resize(args[2].T, 64, true))}
		},
		"holdsFunc": func(env *Env, n *ast.CallExpr, args []*SVal) *SVal {
			// holdsFunc(x, "pkg.Name"): interface x wraps (a named function type holding) exactly that function
			e := env.e
			c := e.c
			x := args[0]
			name := ""
			if cv, ok := env.info.Types[n.Args[1]]; ok && cv.Value != nil {
				name = constant.StringVal(cv.Value)
			}
			var fn *ssa.Function
			if k := strings.Index(name, "@"); k >= 0 {
				// "pkgpath.init@file.go#k"
				d := strings.LastIndex(name[:k], ".")
				fn = e.w.findFunc(name[:d], name[d+1:])
			} else {
				for f := range e.w.AllFuncs {
					if f.String() == name {
						fn = f
					}
				}
			}
			if fn == nil {
				env.fail(n, "unknown function %q", name)
			}
			var tag *Term
			switch x.K {
			case KFunc:
				tag = x.Tag
			case KIface:
				// boxed function value: the box class follows from the function-typed implementers of the interface
				var parts []*Term
				for _, T := range e.w.funcTypedImplementers(x.Typ) {
					cl := "box:" + typeKey(T) + "#fn"
					srt := Arr(RefS, IntS)
					parts = append(parts, c.And(c.Eq(x.Tag, c.Int(int64(e.w.typeTag(T)))), c.Eq(c.Select(e.get(env.state(), cl, srt), x.T), e.fnTag(fn))))
				}
				return env.mkBool(c.Or(parts...))
			default:
				env.fail(n, "holdsFunc on unsupported value")
			}
			return env.mkBool(c.Eq(tag, e.fnTag(fn)))
		},
		"otherarray": func(env *Env, n *ast.CallExpr, args []*SVal) *SVal {
			// otherarray(a, b): the two slices are backed by different arrays (or a is empty)
			c := env.e.c
			return env.mkBool(c.Or(c.Eq(args[0].Len, c.BVLit(0, 64)), c.Not(c.Eq(args[0].Base, args[1].Base))))
		},
		"samebase": func(env *Env, n *ast.CallExpr, args []*SVal) *SVal {
			c := env.e.c
			return env.mkBool(c.And(c.Eq(args[0].Base, args[1].Base), c.Eq(args[0].Off, args[1].Off)))
		},
		"bufBytes": func(env *Env, n *ast.CallExpr, args []*SVal) *SVal {
			return env.e.bufBytes(args[0], env.state())
		},
		// bsum8(data, lo, hi) = data[lo] + ... + data[hi-1]  (mod 256)
		"bsum8": func(env *Env, n *ast.CallExpr, args []*SVal) *SVal {
			e := env.e
			c := e.c
			d := args[0]
			lo := c.Resize(args[1].T, 64, true)
			hi := c.Resize(args[2].T, 64, true)
			mem := e.get(env.state(), "mem:bv8", Arr(RefS, Arr(BV64, BV8)))
			arr := c.Select(mem, d.Base)
			from, to := c.BVBin("bvadd", d.Off, lo), c.BVBin("bvadd", d.Off, hi)
			return &SVal{K: KScalar, Typ: types.Typ[types.Uint8], T: e.bsum(arr, from, to, 0)}
		},
	}
}

// bsum(arr, from, to): uninterpreted fold with unfolding facts instantiated at use.
func (e *Encoder) bsum(arr, from, to *Term, depth int) *Term {
	t := e.c.App("bsum8", BV8, arr, from, to)
	e.bsumAxioms(t, depth)
	return t
}

func (e *Encoder) bsumAxioms(t *Term, depth int) {
	c := e.c
	if e.ufAxiomSeen[t] {
		return
	}
	e.ufAxiomSeen[t] = true
	arr, from, to := t.Args[0], t.Args[1], t.Args[2]
	// constant small ranges are fully unfolded
	d := c.BVBin("bvsub", to, from)
	if d.IsLit() && d.V <= 16 {
		sum := c.BVLit(0, 8)
		for k := uint64(0); k < d.V; k++ {
			sum = c.BVBin("bvadd", sum, c.Select(arr, c.BVBin("bvadd", from, c.BVLit(k, 64))))
		}
		e.assumeFact(c.Eq(t, sum))
		return
	}
	e.assumeFact(c.Implies(c.Eq(from, to), c.Eq(t, c.BVLit(0, 8))))
	// frame: a store outside the summed range does not change the sum
	if arr.Op == "store" && depth < 12 {
		ix := arr.Args[1]
		outside := c.Or(c.BVCmp("bvult", ix, from), c.BVCmp("bvule", to, ix))
		inner := e.bsum(arr.Args[0], from, to, depth+1)
		e.assumeFact(c.Implies(c.And(c.BVCmp("bvule", from, to), outside), c.Eq(t, inner)))
	}
	if depth < 1 {
		prev := c.BVBin("bvsub", to, c.BVLit(1, 64))
		pt := e.bsum(arr, from, prev, depth+1)
		e.assumeFact(c.Implies(c.BVCmp("bvult", from, to), c.Eq(t, c.BVBin("bvadd", pt, c.Select(arr, prev)))))
	}
}

// closeAxioms instantiates the unfolding facts of every uninterpreted fold
// application occurring in t (needed for terms produced by substitution).
func (e *Encoder) closeAxioms(t *Term) {
	seen := map[*Term]bool{}
	var rec func(x *Term)
	rec = func(x *Term) {
		if seen[x] {
			return
		}
		seen[x] = true
		if x.Op == "app" && x.Name == "bsum8" && !x.hb {
			e.bsumAxioms(x, 0)
		}
		for _, a := range x.Args {
			rec(a)
		}
	}
	rec(t)
}

func (ct *Contract) isEmpty() bool {
	return len(ct.Requires) == 0 && len(ct.Ensures) == 0 && len(ct.Assigns) == 0 && !ct.Nocheck
}

// ---- closed-world dispatch ---------------------------------------------------------------------

// implementers lists the concrete types of the module that implement the
// interface (closed-world assumption, recorded in the evidence).
func (w *World) implementers(it types.Type, m *types.Func) []types.Type {
	iface, ok := it.Underlying().(*types.Interface)
	if !ok {
		return nil
	}
	// closed world only for interfaces declared by the module itself
	nt, isNamed := it.(*types.Named)
	if !isNamed || nt.Obj().Pkg() == nil || !strings.HasPrefix(nt.Obj().Pkg().Path(), modPath) {
		return nil
	}
	// ... and not for the user-facing API interfaces (Session, Connection, ...), which callers implement too
	if pp := nt.Obj().Pkg().Path(); pp == modPath || strings.HasSuffix(pp, "/pkg/dcmi") || strings.HasSuffix(pp, "/transport") {
		return nil
	}
	w.mu.Lock()
	defer w.mu.Unlock()
	key := it.String()
	if r, ok := w.implCache[key]; ok {
		return r
	}
	var out []types.Type
	for _, path := range sortedStrKeys(w.Pkgs) {
		p := w.Pkgs[path]
		if !strings.HasPrefix(path, modPath) || strings.Contains(path, "/cmd/") {
			continue
		}
		sc := p.Types.Scope()
		for _, n := range sc.Names() {
			tn, ok := sc.Lookup(n).(*types.TypeName)
			if !ok || tn.IsAlias() {
				continue
			}
			T := tn.Type()
			if _, isI := T.Underlying().(*types.Interface); isI {
				continue
			}
			if types.Implements(T, iface) {
				out = append(out, T)
			} else if types.Implements(types.NewPointer(T), iface) {
				out = append(out, types.NewPointer(T))
			}
		}
	}
	sort.Slice(out, func(i, j int) bool { return out[i].String() < out[j].String() })
	if w.implCache == nil {
		w.implCache = map[string][]types.Type{}
	}
	w.implCache[key] = out
	return out
}

// funcCandidates lists module functions (no free variables) of the given
// signature whose value is taken somewhere in the module.
func (w *World) funcCandidates(sig *types.Signature) []*ssa.Function {
	w.mu.Lock()
	defer w.mu.Unlock()
	if w.addrTaken == nil {
		w.addrTaken = map[*ssa.Function]bool{}
		for f := range w.AllFuncs {
			if f.Pkg == nil || !strings.HasPrefix(f.Pkg.Pkg.Path(), modPath) {
				continue
			}
			for _, b := range f.Blocks {
				for _, in := range b.Instrs {
					var ops []*ssa.Value
					ops = in.Operands(ops)
					for k, op := range ops {
						if op == nil || *op == nil {
							continue
						}
						g, ok := (*op).(*ssa.Function)
						if !ok || len(g.FreeVars) > 0 {
							continue
						}
						if c, isCall := in.(ssa.CallInstruction); isCall && k == 0 && c.Common().Value == *op {
							continue // direct call, not a value use
						}
						w.addrTaken[g] = true
					}
				}
			}
		}
	}
	var out []*ssa.Function
	for f := range w.addrTaken {
		// functions (of the module or of dependencies) whose value is taken somewhere in the module
		if f.Pkg != nil && types.Identical(f.Signature, sig) {
			out = append(out, f)
		}
	}
	sort.Slice(out, func(i, j int) bool { return out[i].String() < out[j].String() })
	return out
}

func (e *Encoder) fnTag(f *ssa.Function) *Term {
	return e.c.Int(int64(e.w.typeTag(types.NewNamed(types.NewTypeName(0, nil, "fn:"+f.String(), nil), f.Signature, nil))))
}

// branches runs alternative continuations under mutually exclusive conditions and merges.
func (e *Encoder) branches(conds []*Term, run func(i int) *SVal) *SVal {
	c := e.c
	g0, st0 := e.guard, e.cur
	var vals []*SVal
	var states []*State
	var gs []*Term
	for i := range conds {
		e.guard = c.And(g0, conds[i])
		e.cur = st0.clone()
		v := run(i)
		vals = append(vals, v)
		states = append(states, e.cur)
		gs = append(gs, e.guard)
	}
	e.cur = e.mergeStates(gs, states)
	e.guard = c.Or(gs...)
	var rv *SVal
	for i := len(vals) - 1; i >= 0; i-- {
		if rv == nil {
			rv = vals[i]
		} else {
			rv = e.iteVal(gs[i], vals[i], rv)
		}
	}
	return rv
}

func (e *Encoder) dispatchInvoke(fr *frame, recv *SVal, impls []types.Type, m *types.Func, args []*SVal, ci ssa.CallInstruction, resT types.Type, key string) *SVal {
	c := e.c
	var conds []*Term
	var names []string
	for _, T := range impls {
		conds = append(conds, c.Eq(recv.Tag, c.Int(int64(e.w.typeTag(T)))))
		names = append(names, typeKey(T))
	}
	e.closedWorld["interface "+key+" is implemented only by "+strings.Join(names, ", ")] = true
	e.assume(c.Or(conds...))
	return e.branches(conds, func(i int) *SVal {
		T := impls[i]
		callee := e.w.Prog.LookupMethod(T, m.Pkg(), m.Name())
		if callee == nil {
			return e.unmodelledCall(fr, key, append([]*SVal{recv}, args...), ci, resT)
		}
		var rv *SVal
		if _, isPtr := T.Underlying().(*types.Pointer); isPtr {
			rv = &SVal{K: KPtr, Typ: T, T: recv.T}
			e.assume(c.Not(c.Eq(recv.T, c.NilRef()))) // a non-nil interface value of the module's own types never wraps a nil pointer
		} else {
			rv = e.load(e.cur, e.boxAddr(recv.T, T))
		}
		as := append([]*SVal{rv}, args...)
		return e.callStatic(fr, callee, as, nil, ci, resT)
	})
}

func (e *Encoder) dispatchFunc(fr *frame, fv *SVal, cands []*ssa.Function, args []*SVal, ci ssa.CallInstruction, resT types.Type) *SVal {
	c := e.c
	var conds []*Term
	var names []string
	for _, f := range cands {
		conds = append(conds, c.Eq(fv.Tag, e.fnTag(f)))
		names = append(names, shortFn(f))
	}
	e.closedWorld["function value of type "+typeKey(fv.Typ)+" is one of "+strings.Join(names, ", ")] = true
	nz := c.Not(c.Eq(fv.Tag, c.Int(0)))
	if !nz.IsTrue() {
		e.oblige("nil", fr.anchorFor(e, ci.Common().Value, "funcvalue"), "call of a nil function value", nz, ci.Pos())
		e.assume(nz)
	}
	e.assume(c.Or(conds...))
	return e.branches(conds, func(i int) *SVal {
		as := append([]*SVal{}, args...)
		return e.callStatic(fr, cands[i], as, nil, ci, resT)
	})
}

func (e *Encoder) realFloor(t *Term) *Term {
	c := e.c
	return c.mk(&Term{Op: "to_real", Args: []*Term{c.mk(&Term{Op: "to_int", Args: []*Term{t}, S: IntS})}, S: RealS})
}

type cbcGhost struct {
	dec    bool
	block  *SVal
	iv     *Term // array snapshot
	ivOff  *Term
	out    *Term // result bytes of the (last) CryptBlocks call, indexed from 0
	srcLen *Term
}

func (e *Encoder) newCBC(fr *frame, args []*SVal, ci ssa.CallInstruction, resT types.Type, dec bool) *SVal {
	c := e.c
	blk, iv := args[0], args[1]
	ok := c.Eq(iv.Len, c.BVLit(16, 64))
	e.oblige("panic", fr.anchorFor(e, ci.Value(), "NewCBC"), "cipher.NewCBC*: IV length must equal the block size", ok, ci.Pos())
	e.assume(ok)
	nz := c.Not(c.Eq(blk.Tag, c.Int(0)))
	if !nz.IsTrue() {
		e.oblige("nil", fr.anchorFor(e, ci.Value(), "NewCBC")+":block", "cipher.NewCBC* on a nil cipher.Block", nz, ci.Pos())
		e.assume(nz)
	}
	mode := e.freshVal("cbcmode", resT)
	e.assumeFact(c.Not(c.Eq(mode.Tag, c.Int(0))))
	mem := e.get(e.cur, "mem:bv8", Arr(RefS, Arr(BV64, BV8)))
	if e.cbc == nil {
		e.cbc = map[*Term]*cbcGhost{}
	}
	e.cbc[mode.T] = &cbcGhost{dec: dec, block: blk, iv: c.Select(mem, iv.Base), ivOff: iv.Off}
	return mode
}

func (e *Encoder) cryptBlocks(fr *frame, args []*SVal, ci ssa.CallInstruction, resT types.Type) *SVal {
	c := e.c
	mode, dst, src := args[0], args[1], args[2]
	ok := c.And(c.Eq(c.BVBin("bvurem", src.Len, c.BVLit(16, 64)), c.BVLit(0, 64)), c.BVCmp("bvule", src.Len, dst.Len))
	e.oblige("panic", fr.anchorFor(e, ci.Value(), "CryptBlocks"), "CryptBlocks: input is whole blocks and the output is large enough", ok, ci.Pos())
	e.assume(ok)
	if e.pure == 0 {
		e.frameCheckLoc(fr, assignLoc{prefix: "mem:bv8", idx: dst.Base}, ci.Pos(), "CryptBlocks")
	}
	mem := e.get(e.cur, "mem:bv8", Arr(RefS, Arr(BV64, BV8)))
	srcArr := c.Select(mem, src.Base)
	old := c.Select(mem, dst.Base)
	g := e.cbc[mode.T]
	name := "cbcX"
	var keyT, ivT, ivOff *Term
	if g != nil {
		if g.dec {
			name = "cbcD"
		} else {
			name = "cbcE"
		}
		keyT = c.App("aesKeyOf", Arr(BV64, BV8), g.block.T)
		ivT, ivOff = g.iv, g.ivOff
	} else {
		keyT = c.Fresh("unknownkey", Arr(BV64, BV8))
		ivT, ivOff = c.Fresh("unknowniv", Arr(BV64, BV8)), c.BVLit(0, 64)
	}
	// result bytes, indexed from 0; an uninterpreted function of key, IV and input
	out := c.App(name, Arr(BV64, BV8), keyT, ivT, ivOff, srcArr, src.Off, src.Len)
	if g != nil && e.pure == 0 {
		g.out, g.srcLen = out, src.Len
	}
	nd := c.Fresh("crypt", Arr(BV64, BV8))
	if e.contract != nil && e.contract.Options["crypt-exact"] {
		// exact model: output bytes are the uninterpreted cipher function of the input, bytes outside the range unchanged
		k := c.Bound("k", BV64)
		inr := c.And(c.BVCmp("bvule", dst.Off, k), c.BVCmp("bvult", k, c.BVBin("bvadd", dst.Off, src.Len)))
		e.assumeFact(c.ForallPat([]*Term{k}, c.Eq(c.Select(nd, k), c.Ite(inr, c.Select(out, c.BVBin("bvsub", k, dst.Off)), c.Select(old, k))), c.Select(nd, k)))
	} else {
		// default: the whole backing array holds arbitrary bytes afterwards (sound over-approximation,
		// and what "a party that knows the keys can choose any plaintext" means); only the bytes just
		// before the output window that callers rely on are pinned individually
		if g != nil && g.out != nil {
			e.cryptOut = nd
			e.cryptOff = dst.Off
		}
		_ = old
	}
	e.set(e.cur, "mem:bv8", c.Store(mem, dst.Base, nd))
	return &SVal{K: KTuple, Typ: resT}
}

// ---- ghost model of hash.Hash --------------------------------------------------------------------
//
// A hash object (identified by the Ref in its interface value) has an
// abstract absorb state (Int). hInit(obj) is its freshly keyed/reset state,
// hAbsorb1/hAbsorbN extend it, hDigest(obj, state) are the bytes Sum appends
// and hSize(obj) how many. All are uninterpreted: equal inputs give equal
// outputs and nothing else is assumed.

// ghost functions of the prelude that spec function bodies may call (they need no syntax)
var ghostSSA = map[string]bool{"hState": true, "hInit": true, "hSizeOf": true, "hAbsorb": true, "hAbsorbStr": true, "hAbsorbByte": true, "hIsDigest": true, "hmacKeyed": true, "hmacKeyedDigest": true, "aesKeyByte": true, "hDigestByte": true}

// constFunc: the function named by the constant string argument i of a ghost call.
func (env *Env) constFunc(n *ast.CallExpr, args []*SVal, i int) *ssa.Function {
	name := ""
	if n != nil {
		if cv, ok := env.info.Types[n.Args[i]]; ok && cv.Value != nil {
			name = constant.StringVal(cv.Value)
		}
	} else if args[i] != nil && args[i].Str != nil {
		name = *args[i].Str
	}
	for f := range env.e.w.AllFuncs {
		if f.String() == name {
			return f
		}
	}
	panic(contractError{fmt.Errorf("contract for %s: ghost call names an unknown function %q", env.ct.FuncName, name)})
}

// hashLenOfTag: digest length of the hash built by the constructor with this function tag.
func (e *Encoder) hashLenOfTag(tag *Term) *Term {
	c := e.c
	szv := c.App("hashLen", BV64, tag)
	var fs []*ssa.Function
	for f := range e.w.AllFuncs {
		fs = append(fs, f)
	}
	sort.Slice(fs, func(i, j int) bool { return fs[i].String() < fs[j].String() })
	for _, f := range fs {
		switch f.String() {
		case "crypto/sha1.New":
			szv = c.Ite(c.Eq(tag, e.fnTag(f)), c.BVLit(20, 64), szv)
		case "crypto/sha256.New":
			szv = c.Ite(c.Eq(tag, e.fnTag(f)), c.BVLit(32, 64), szv)
		case "crypto/md5.New":
			szv = c.Ite(c.Eq(tag, e.fnTag(f)), c.BVLit(16, 64), szv)
		}
	}
	return szv
}

// hashAbsorb: the absorb state after writing len bytes of arr from off.
func (e *Encoder) hashAbsorb(st, arr, off, n *Term) *Term {
	c := e.c
	if n.IsLit() && n.V <= 64 {
		ns := st
		for k := uint64(0); k < n.V; k++ {
			ns = c.App("hAbsorb1", IntS, ns, c.Select(arr, c.BVBin("bvadd", off, c.BVLit(k, 64))))
		}
		return ns
	}
	c.contentUF("hAbsorbN", 1)
	return c.App("hAbsorbN", IntS, st, arr, off, n)
}

// hashObjOf: the hash object whose ghost state a hash.Hash value denotes. A
// module type that embeds a hash.Hash (truncatedHash) shares the state of the
// hash it wraps; its truncation length is returned too (nil if none).
func (e *Encoder) hashObjOf(h *SVal, st *State) (*Term, *Term) {
	return e.hashObjOfDepth(h, st, 0)
}

// hashWrappers: types of package bmc that embed a hash.Hash (value and pointer forms).
func (e *Encoder) hashWrappers() []types.Type {
	var wrappers []types.Type
	if p := e.w.Pkgs[modPath]; p != nil {
		sc := p.Types.Scope()
		for _, n := range sc.Names() {
			tn, ok := sc.Lookup(n).(*types.TypeName)
			if !ok || tn.IsAlias() {
				continue
			}
			if sT, ok := tn.Type().Underlying().(*types.Struct); ok {
				for i := 0; i < sT.NumFields(); i++ {
					if sT.Field(i).Embedded() && sT.Field(i).Type().String() == "hash.Hash" {
						wrappers = append(wrappers, tn.Type(), types.NewPointer(tn.Type()))
					}
				}
			}
		}
	}
	return wrappers
}

func (e *Encoder) hashObjOfDepth(h *SVal, st *State, depth int) (*Term, *Term) {
	c := e.c
	if h.K != KIface || depth >= 1 {
		// stated assumption: a wrapper (truncatedHash) never wraps another wrapper
		return h.T, nil
	}
	wrappers := e.hashWrappers()
	obj := h.T
	var trunc *Term
	if len(wrappers) > 0 {
		e.trusted["a hash wrapper of the module (truncatedHash) never wraps another wrapper, and its length does not exceed the size of the hash it wraps"] = true
	}
	for _, W := range wrappers {
		if h.Dyn != nil && !types.Identical(h.Dyn, W) {
			continue
		}
		T := W
		isPtr := false
		if pt, ok := T.Underlying().(*types.Pointer); ok {
			T = pt.Elem()
			isPtr = true
		}
		sT := T.Underlying().(*types.Struct)
		var sv *SVal
		switch {
		case isPtr:
			sv = e.load(st, &Addr{Typ: T, Ref: h.T})
		case h.Dyn != nil && h.Inner != nil:
			sv = h.Inner
		default:
			sv = e.load(st, e.boxAddr(h.T, T))
		}
		if sv == nil || sv.K != KStruct {
			continue
		}
		var innerObj, length *Term
		for i := 0; i < sT.NumFields(); i++ {
			f := sT.Field(i)
			if f.Embedded() && f.Type().String() == "hash.Hash" {
				innerObj, _ = e.hashObjOfDepth(sv.Fields[i], st, depth+1)
			}
			if f.Name() == "length" {
				length = sv.Fields[i].T
			}
		}
		if innerObj == nil {
			continue
		}
		if h.Dyn != nil {
			return innerObj, length
		}
		is := c.Eq(h.Tag, c.Int(int64(e.w.typeTag(W))))
		obj = c.Ite(is, innerObj, obj)
		if length != nil {
			if trunc == nil {
				trunc = e.hashSizeObj(h.T)
			}
			trunc = c.Ite(is, length, trunc)
			// (stated assumption above) the truncation length lies within the wrapped hash's size
			bound := c.Implies(is, c.And(c.BVCmp("bvsle", c.BVLit(1, 64), length), c.BVCmp("bvsle", length, c.BVLit(64, 64))))
			if !e.ufAxiomSeen[bound] {
				e.ufAxiomSeen[bound] = true
				e.assumeFact(bound)
			}
		}
	}
	return obj, trunc
}

func (e *Encoder) hashState(h *SVal) *Term {
	obj, _ := e.hashObjOf(h, e.cur)
	arr := e.get(e.cur, "ghost:hash#st", Arr(RefS, IntS))
	return e.c.Select(arr, obj)
}

func (e *Encoder) setHashState(fr *frame, h *SVal, ns *Term, ci ssa.CallInstruction) {
	obj, _ := e.hashObjOf(h, e.cur)
	arr := e.get(e.cur, "ghost:hash#st", Arr(RefS, IntS))
	if e.pure == 0 {
		e.frameCheckLoc(fr, assignLoc{prefix: "ghost:hash#st", idx: obj, typ: types.Typ[types.Int]}, ci.Pos(), "hash state update")
	}
	e.set(e.cur, "ghost:hash#st", e.c.Store(arr, obj, ns))
}

// hashSize: the number of bytes Sum appends: the truncation length of a
// wrapper, else hSize of the object (1..64).
func (e *Encoder) hashSize(h *SVal) *Term {
	obj, trunc := e.hashObjOf(h, e.cur)
	if trunc != nil {
		return trunc
	}
	return e.hashSizeObj(obj)
}

func (e *Encoder) hashSizeObj(obj *Term) *Term {
	c := e.c
	t := c.App("hSize", BV64, obj)
	if !e.ufAxiomSeen[t] {
		e.ufAxiomSeen[t] = true
		e.assumeFact(c.And(c.BVCmp("bvule", c.BVLit(1, 64), t), c.BVCmp("bvule", t, c.BVLit(64, 64))))
	}
	return t
}

// durationQuot: d.Seconds()/Minutes()/Hours() as the exact rational d/unit
// (floating point treated as exact real arithmetic: stated assumption).
func (e *Encoder) durationQuot(d *SVal, unit int64) *SVal {
	c := e.c
	e.trusted["time.Duration.Seconds/Minutes/Hours return the exact quotient (float64 treated as real arithmetic)"] = true
	t := c.RealBin("/", e.bvToReal(d.T, true), c.RealLit(realLit(float64(unit))))
	return &SVal{K: KScalar, Typ: types.Typ[types.Float64], T: t, Rat: &ratVal{Num: d.T, Den: unit}}
}

// timeParts: the (seconds, nanoseconds) since the epoch denoted by a time.Time
// value, as uninterpreted functions of its representation (wall, ext).
func (e *Encoder) timeParts(t *SVal) (*Term, *Term) {
	if t.K != KStruct || len(t.Fields) < 2 {
		return e.c.Fresh("sec", BV64), e.c.Fresh("nsec", BV64)
	}
	return e.c.App("timeSec", BV64, t.Fields[0].T, t.Fields[1].T), e.c.App("timeNsec", BV64, t.Fields[0].T, t.Fields[1].T)
}

// ---- gopacket serialize buffer accessors (used by contracts) ------------------------------------

func (e *Encoder) sbufType() types.Type {
	t := e.w.lookupTypeByName("github.com/google/gopacket.serializeBuffer")
	if t == nil {
		panic(contractError{fmt.Errorf("gopacket.serializeBuffer not found")})
	}
	return t
}

func (e *Encoder) sbufField(b *SVal, st *State, name string) *SVal {
	t := e.sbufType()
	s := t.Underlying().(*types.Struct)
	for i := 0; i < s.NumFields(); i++ {
		if s.Field(i).Name() == name {
			return e.load(st, e.fieldAddr(e.aggRef(b), t, i))
		}
	}
	panic("serializeBuffer has no field " + name)
}

func (e *Encoder) bufValid(b *SVal, st *State, limit uint64) *Term {
	c := e.c
	data := e.sbufField(b, st, "data")
	start := e.sbufField(b, st, "start").T
	pre := e.sbufField(b, st, "prepended").T
	app := e.sbufField(b, st, "appended").T
	lim := c.BVLit(limit, 64)
	zero := c.BVLit(0, 64)
	tagOK := c.True()
	if b.K == KIface {
		tagOK = c.Eq(b.Tag, c.Int(int64(e.w.typeTag(types.NewPointer(e.sbufType())))))
	}
	wholeObject := c.Or(c.Eq(data.Base, c.NilRef()), c.IsRoot(data.Base)) // the backing array is a heap object of its own
	return c.And(tagOK, wholeObject, c.Not(c.Eq(e.aggRef(b), c.NilRef())),
		c.BVCmp("bvsle", zero, start), c.BVCmp("bvsle", start, data.Len), c.BVCmp("bvule", data.Len, data.Cap), c.BVCmp("bvule", data.Cap, lim),
		c.Eq(data.Off, zero), c.BVCmp("bvsle", zero, pre), c.BVCmp("bvsle", pre, lim), c.BVCmp("bvsle", zero, app), c.BVCmp("bvsle", app, lim))
}

func (e *Encoder) bufBytes(b *SVal, st *State) *SVal {
	c := e.c
	data := e.sbufField(b, st, "data")
	start := e.sbufField(b, st, "start").T
	return &SVal{K: KSlice, Typ: types.NewSlice(types.Typ[types.Uint8]), Base: data.Base, Off: c.BVBin("bvadd", data.Off, start), Len: c.BVBin("bvsub", data.Len, start), Cap: c.BVBin("bvsub", data.Cap, start)}
}

// smallBound asks the solver whether n <= limit holds on the current path and,
// if so, returns the smallest power-of-two-ish bound found (at most limit).
func (e *Encoder) smallBound(n *Term, limit int) (int, bool) {
	c := e.c
	if n.IsLit() {
		return int(n.V), n.V <= uint64(limit)
	}
	for _, b := range []int{16, 32, 64} {
		if b > limit {
			break
		}
		as := append([]*Term{}, e.assumptions...)
		as = append(as, e.guard, c.Not(c.BVCmp("bvule", n, c.BVLit(uint64(b), 64))))
		res := Solve("bound", c.Script(as, nil, ""), 2*time.Second, false)
		if res.Status == "unsat" {
			return b, true
		}
		if res.Status != "sat" {
			break
		}
	}
	return 0, false
}

// callOrdinal: 1-based position of call ci among the calls of fn whose callee name contains pat,
// in source order (0 if ci is not one of them).
func callOrdinal(fn *ssa.Function, ci ssa.CallInstruction, pat string) int {
	var ps []token.Pos
	for _, b := range fn.Blocks {
		for _, in := range b.Instrs {
			c2, ok := in.(ssa.CallInstruction)
			if !ok {
				continue
			}
			cm := c2.Common()
			name := ""
			switch {
			case cm.IsInvoke():
				name = ifaceMethodKey(cm.Value.Type(), cm.Method)
			case cm.StaticCallee() != nil:
				name = cm.StaticCallee().String()
			default:
				name = "dynamic:" + cm.Value.Type().String()
			}
			if strings.Contains(name, pat) {
				ps = append(ps, c2.Pos())
			}
		}
	}
	sort.Slice(ps, func(i, j int) bool { return ps[i] < ps[j] })
	for i, p := range ps {
		if p == ci.Pos() {
			return i + 1
		}
	}
	return 0
}

// atCall evaluates the contract's "at <callee> assert" clauses at a matching call.
func (e *Encoder) atCall(fr *frame, cm *ssa.CallCommon, ci ssa.CallInstruction, args []*SVal) {
	name := ""
	switch {
	case cm.IsInvoke():
		name = ifaceMethodKey(cm.Value.Type(), cm.Method)
	case cm.StaticCallee() != nil:
		name = cm.StaticCallee().String()
	default:
		name = "dynamic:" + cm.Value.Type().String()
	}
	for _, cl := range e.contract.AtCalls {
		if !strings.Contains(name, cl.Callee) {
			continue
		}
		if cl.Ordinal > 0 && callOrdinal(fr.fn, ci, cl.Callee) != cl.Ordinal {
			continue
		}
		if cl.Slow && !thoroughTier {
			skippedSlow++
			continue
		}
		if err := e.w.parseClause(e.contract, cl); err != nil {
			panic(contractError{err})
		}
		if cl.Expr != nil && fr.fn.Pkg != nil && ci.Pos().IsValid() {
			// the clause applies at the calls where the variables it names are in scope
			if err := types.CheckExpr(e.w.Fset, fr.fn.Pkg.Pkg, ci.Pos(), cl.Expr, nil); err != nil && strings.Contains(err.Error(), "undefined:") {
				continue
			}
		}
		env := e.contractEnv(fr, e.contract, nil, e.cur, e.entry)
		env.callArgs = args
		env.atInstr = ci
		if cm.IsInvoke() {
			env.callArgs = append([]*SVal{e.val(fr, cm.Value)}, args...)
		}
		t := env.trClause(cl)
		tag := cl.Tag
		if tag == "" {
			tag = "at." + cl.Callee
		}
		o := e.oblige("atcall", tag, "at the call of "+cl.Callee+": "+cl.Text, t, ci.Pos())
		if o != nil {
			o.Props = propsOfTag(cl.Tag, e.contract.Props)
		}
		e.assume(t)
	}
}

func (w *World) isModuleInterface(t types.Type) bool {
	nt, ok := t.(*types.Named)
	if !ok || nt.Obj().Pkg() == nil {
		return false
	}
	_, isI := t.Underlying().(*types.Interface)
	return isI && strings.HasPrefix(nt.Obj().Pkg().Path(), modPath)
}

// pureGetter: result components are uninterpreted functions of the receiver value.
func (e *Encoder) pureGetter(key string, recv *SVal, resT types.Type) *SVal {
	c := e.c
	mk := func(t types.Type, path string) *SVal { return nil }
	var build func(t types.Type, path string) *SVal
	build = func(t types.Type, path string) *SVal {
		v := &SVal{K: kindOf(t), Typ: t}
		switch u := t.Underlying().(type) {
		case *types.Tuple:
			if u.Len() == 1 {
				return build(u.At(0).Type(), path)
			}
			for i := 0; i < u.Len(); i++ {
				v.Fields = append(v.Fields, build(u.At(i).Type(), fmt.Sprintf("%s.%d", path, i)))
			}
			return v
		case *types.Struct:
			for i := 0; i < u.NumFields(); i++ {
				v.Fields = append(v.Fields, build(u.Field(i).Type(), path+"."+u.Field(i).Name()))
			}
			return v
		case *types.Array:
			return e.freshVal("getter", t)
		}
		cs := leafComps(t)
		ts := make([]*Term, len(cs))
		for k, cp := range cs {
			ts[k] = c.App("get:"+key+path+cp.suffix, cp.sort, recv.Tag, recv.T)
		}
		r := fromComps(t, ts)
		e.typeInvariant(r)
		if r.K == KPtr && (strings.HasSuffix(key, ".Operation") || strings.HasSuffix(key, ".Descriptor")) {
			// every implementation returns the address of a package-level table entry
			e.assumeFact(c.Not(c.Eq(r.T, c.NilRef())))
			e.trusted["Command.Operation() / Payload.Descriptor() return a non-nil pointer (every implementation returns the address of a package-level table entry)"] = true
		}
		return r
	}
	_ = mk
	return build(resT, "")
}

// restoreReceiver / restoreFrame: an unmodelled callee (or one whose contract has
// no assigns clause) can only modify memory reachable from its arguments.
// Stated assumptions: (1) the pointees of the verified function's pointer
// parameters are separate from each other and from whatever else its other
// arguments reach (no hidden aliasing between parameters); (2) a callee does
// not keep a pointer to an argument's pointee after it returns. Under these,
// the objects this function can name - pointees of its pointer parameters and
// the objects it allocated itself - keep the values of every field that is
// not reachable from the arguments of the call: reachable means passed
// directly, passed as an interior pointer (then only that part), or pointed
// to by a field of an object that is passed whole.
type trackedObj struct {
	ref *Term
	typ types.Type // type of the object stored at ref
}

func (e *Encoder) restoreReceiver(fr *frame, pre *State, args []*SVal) {
	e.restoreFrame(fr, pre, args)
}

func (e *Encoder) argRoots(a *SVal, out *[]*Term) {
	if a == nil {
		return
	}
	switch a.K {
	case KPtr, KMap, KOpaque:
		t := a.T
		if a.Addr != nil {
			t = a.Addr.Ref
		}
		if t != nil {
			*out = append(*out, t)
		}
	case KIface:
		if a.T != nil {
			*out = append(*out, a.T)
		}
		if a.Inner != nil {
			e.argRoots(a.Inner, out)
		}
	case KSlice, KString:
		if a.Base != nil {
			*out = append(*out, a.Base)
		}
	case KFunc:
		if a.T != nil {
			*out = append(*out, a.T)
		}
		for _, b := range a.Bind {
			e.argRoots(b, out)
		}
	case KStruct, KTuple, KArray:
		for _, f := range a.Fields {
			e.argRoots(f, out)
		}
	}
}

func (e *Encoder) restoreFrame(fr *frame, pre *State, args []*SVal) {
	top := e.topFrame
	if top == nil || e.initMode {
		return
	}
	var objs []trackedObj
	for _, p := range top.fn.Params {
		v := top.vals[p]
		if v == nil || v.K != KPtr {
			continue
		}
		if pt, ok := v.Typ.Underlying().(*types.Pointer); ok {
			objs = append(objs, trackedObj{v.T, pt.Elem()})
		}
	}
	// captured variables of a closure under verification: only the closure and its enclosing function
	// (which is not running) can name the cell
	for _, fv := range top.fn.FreeVars {
		v := top.vals[fv]
		if v == nil || v.K != KPtr {
			continue
		}
		if pt, ok := fv.Type().Underlying().(*types.Pointer); ok {
			objs = append(objs, trackedObj{v.T, pt.Elem()})
		}
	}
	objs = append(objs, e.tracked...)
	if len(objs) == 0 {
		return
	}
	var roots []*Term
	for _, a := range args {
		e.argRoots(a, &roots)
	}
	covered := func(ref *Term) bool { // ref lies inside something passed, or something passed lies inside ref
		for _, t := range roots {
			if refDescends(t, ref) || refDescends(ref, t) {
				return true
			}
		}
		return false
	}
	whole := func(ref *Term) bool { // the object at ref is passed as a whole
		for _, t := range roots {
			if refDescends(ref, t) {
				return true
			}
		}
		return false
	}
	// pointer fields of objects passed whole extend the reachable set
	var ptrFields func(ref *Term, t types.Type, depth int)
	ptrFields = func(ref *Term, t types.Type, depth int) {
		s, ok := t.Underlying().(*types.Struct)
		if !ok || depth > 4 {
			return
		}
		for i := 0; i < s.NumFields(); i++ {
			a := e.fieldAddr(ref, t, i)
			switch kindOf(a.Typ) {
			case KStruct:
				ptrFields(a.Ref, a.Typ, depth+1)
			case KPtr, KIface, KSlice, KMap, KFunc, KOpaque:
				v := e.load(pre, a)
				e.argRoots(v, &roots)
			}
		}
	}
	seenWhole := map[*Term]bool{}
	for round := 0; round < 4; round++ {
		changed := false
		for _, o := range objs {
			if !seenWhole[o.ref] && whole(o.ref) {
				seenWhole[o.ref] = true
				changed = true
				ptrFields(o.ref, o.typ, 0)
			}
		}
		if !changed {
			break
		}
	}
	e.trusted["an unmodelled callee (or one without an assigns clause) modifies only memory reachable from its arguments; the pointees of the verified function's pointer parameters and the objects it allocated are reachable only through the arguments that name them (parameter separation), and callees do not retain pointers to them after returning"] = true
	restoreLeaf := func(a *Addr) {
		for _, cp := range leafComps(a.Typ) {
			cl := a.Prefix + cp.suffix
			old := e.get(pre, cl, Arr(RefS, cp.sort))
			cur := e.get(e.cur, cl, Arr(RefS, cp.sort))
			e.set(e.cur, cl, e.c.Store(cur, a.Idx, e.c.Select(old, a.Idx)))
		}
	}
	var walk func(ref *Term, t types.Type, depth int)
	walk = func(ref *Term, t types.Type, depth int) {
		if depth > 4 {
			return
		}
		if isBytesBuffer(t) && !covered(ref) {
			// the write counters of a buffer the callee cannot reach
			for _, g := range []string{"ghost:bufwrites", "ghost:buflen"} {
				old := e.get(pre, g, Arr(RefS, BV64))
				cur := e.get(e.cur, g, Arr(RefS, BV64))
				e.set(e.cur, g, e.c.Store(cur, ref, e.c.Select(old, ref)))
			}
		}
		switch u := t.Underlying().(type) {
		case *types.Struct:
			for i := 0; i < u.NumFields(); i++ {
				a := e.fieldAddr(ref, t, i)
				if whole(a.Ref) {
					continue
				}
				if isAggregate(a.Typ) {
					walk(a.Ref, a.Typ, depth+1)
					continue
				}
				if covered(a.Ref) {
					continue
				}
				restoreLeaf(a)
			}
		case *types.Array:
			if covered(ref) {
				return
			}
			if cls := elemClass(u.Elem()); cls != "" {
				srt := e.sorts[cls]
				if srt == nil {
					return
				}
				old := e.get(pre, cls, srt)
				cur := e.get(e.cur, cls, srt)
				e.set(e.cur, cls, e.c.Store(cur, ref, e.c.Select(old, ref)))
			}
		default:
			if covered(ref) {
				return
			}
			a := e.cellAddr(ref, t)
			if a.Prefix != "" {
				restoreLeaf(a)
			}
		}
	}
	for _, o := range objs {
		if whole(o.ref) {
			continue
		}
		walk(o.ref, o.typ, 0)
	}
}

// funcTypedImplementers: named function types of the module that implement the interface.
func (w *World) funcTypedImplementers(it types.Type) []types.Type {
	iface, ok := it.Underlying().(*types.Interface)
	if !ok {
		return nil
	}
	var out []types.Type
	for _, path := range sortedStrKeys(w.Pkgs) {
		p := w.Pkgs[path]
		if !strings.HasPrefix(path, modPath) {
			continue
		}
		sc := p.Types.Scope()
		for _, n := range sc.Names() {
			tn, ok := sc.Lookup(n).(*types.TypeName)
			if !ok || tn.IsAlias() {
				continue
			}
			if _, isSig := tn.Type().Underlying().(*types.Signature); isSig && types.Implements(tn.Type(), iface) {
				out = append(out, tn.Type())
			}
		}
	}
	sort.Slice(out, func(i, j int) bool { return out[i].String() < out[j].String() })
	return out
}

// dynOption: "option dyn:<param>=<pkgpath.Type>" states the dynamic type of an interface parameter.
func (ct *Contract) dynOption(w *World, param string) types.Type {
	for o := range ct.Options {
		if strings.HasPrefix(o, "dyn:"+param+"=") {
			return w.lookupTypeByName(strings.TrimPrefix(o, "dyn:"+param+"="))
		}
	}
	return nil
}

// deepEq: component-wise equality of two values of the same type (slices and strings by header).
func (e *Encoder) deepEq(a, b *SVal) *Term {
	c := e.c
	if a == nil || b == nil {
		return c.True()
	}
	var parts []*Term
	eq := func(x, y *Term) {
		if x != nil && y != nil {
			parts = append(parts, c.Eq(x, y))
		}
	}
	switch a.K {
	case KStruct, KTuple:
		for i := range a.Fields {
			if i < len(b.Fields) {
				parts = append(parts, e.deepEq(a.Fields[i], b.Fields[i]))
			}
		}
	case KArray:
		if a.T != nil {
			eq(a.T, b.T)
		}
		for i := range a.Fields {
			if i < len(b.Fields) {
				parts = append(parts, e.deepEq(a.Fields[i], b.Fields[i]))
			}
		}
	case KSlice:
		eq(a.Base, b.Base)
		eq(a.Off, b.Off)
		eq(a.Len, b.Len)
		eq(a.Cap, b.Cap)
	case KString:
		eq(a.Base, b.Base)
		eq(a.Off, b.Off)
		eq(a.Len, b.Len)
	case KIface, KFunc:
		eq(a.Tag, b.Tag)
		eq(a.T, b.T)
	default:
		eq(a.T, b.T)
	}
	return c.And(parts...)
}

// privateCallback: a dynamic call of a function value whose signature mentions an unexported
// struct of the module can only reach functions written in the module; if none of the module's
// functions of that signature contains a call, such a callback cannot change metrics or send.
func (e *Encoder) privateCallback(ci ssa.CallInstruction) bool {
	if ci == nil {
		return false
	}
	cm := ci.Common()
	if cm.IsInvoke() || cm.StaticCallee() != nil {
		return false
	}
	sig := cm.Signature()
	private := false
	for i := 0; i < sig.Params().Len(); i++ {
		t := sig.Params().At(i).Type()
		if pt, ok := t.Underlying().(*types.Pointer); ok {
			t = pt.Elem()
		}
		if nt, ok := t.(*types.Named); ok && nt.Obj().Pkg() != nil && strings.HasPrefix(nt.Obj().Pkg().Path(), modPath) && !nt.Obj().Exported() {
			private = true
		}
	}
	if !private {
		return false
	}
	for f := range e.w.AllFuncs {
		if f.Pkg == nil || !strings.HasPrefix(f.Pkg.Pkg.Path(), modPath) || !types.Identical(f.Signature, sig) {
			continue
		}
		for _, b := range f.Blocks {
			for _, in := range b.Instrs {
				if c, ok := in.(ssa.CallInstruction); ok {
					if _, isB := c.Common().Value.(*ssa.Builtin); !isB {
						return false
					}
				}
			}
		}
	}
	e.trusted["a function value whose signature mentions an unexported type of the module is one of the module's own functions of that signature; none of them calls anything, so it changes no metric and sends nothing"] = true
	return true
}
