package main

// Hash-consed SMT term DAG with light simplification and an SMT-LIB 2 printer.

import (
	"fmt"
	"sort"
	"strings"
	"sync"
)

type SortKind int

const (
	SBool SortKind = iota
	SBV
	SInt
	SReal
	SRef
	SArr
)

type Sort struct {
	K    SortKind
	W    int
	I, E *Sort
	s    string
}

var sortTab = map[string]*Sort{}
var sortMu sync.Mutex

func internSort(s *Sort) *Sort {
	sortMu.Lock()
	defer sortMu.Unlock()
	if x, ok := sortTab[s.s]; ok {
		return x
	}
	sortTab[s.s] = s
	return s
}

var (
	BoolS = internSort(&Sort{K: SBool, s: "Bool"})
	IntS  = internSort(&Sort{K: SInt, s: "Int"})
	RealS = internSort(&Sort{K: SReal, s: "Real"})
	RefS  = internSort(&Sort{K: SRef, s: "Ref"})
)

func BV(w int) *Sort {
	return internSort(&Sort{K: SBV, W: w, s: fmt.Sprintf("(_ BitVec %d)", w)})
}
func Arr(i, e *Sort) *Sort {
	return internSort(&Sort{K: SArr, I: i, E: e, s: fmt.Sprintf("(Array %s %s)", i.s, e.s)})
}
func (s *Sort) String() string { return s.s }

type Term struct {
	Op   string // "sym","bv","bool","int","real","bound", or SMT operator, or "app" (uninterpreted fn)
	Args []*Term
	S    *Sort
	Name string
	I, J int
	V    uint64
	id   int
	hb   bool // contains a bound variable
}

// Ctx owns a term table. Not safe for concurrent use.
type Ctx struct {
	tab    map[string]*Term
	n      int
	fresh  int
	ufuncs map[string]*UFunc
	// lazily instantiated facts about terms (objof axioms etc.)
	sideFacts  []*Term
	objofSeen  map[*Term]bool
	preMemo    map[*Term]bool
	selDepth   int
	mkMu       sync.Mutex
	contentUFs map[string]int // uninterpreted functions congruent in the *content* of an (array, offset, length) triple starting at this argument index
}

type UFunc struct {
	Name string
	Args []*Sort
	Ret  *Sort
}

func NewCtx() *Ctx {
	return &Ctx{tab: map[string]*Term{}, ufuncs: map[string]*UFunc{}, objofSeen: map[*Term]bool{}}
}

func (c *Ctx) mk(t *Term) *Term {
	var sb strings.Builder
	sb.WriteString(t.Op)
	sb.WriteByte('|')
	sb.WriteString(t.Name)
	fmt.Fprintf(&sb, "|%d|%d|%d|%s", t.I, t.J, t.V, t.S.s)
	for _, a := range t.Args {
		fmt.Fprintf(&sb, "|%d", a.id)
		if a.hb {
			t.hb = true
		}
	}
	k := sb.String()
	c.mkMu.Lock() // solveAll builds case-split terms from several goroutines
	defer c.mkMu.Unlock()
	if x, ok := c.tab[k]; ok {
		return x
	}
	c.n++
	t.id = c.n
	if t.Op == "bound" {
		t.hb = true
	}
	c.tab[k] = t
	return t
}

func (c *Ctx) Sym(name string, s *Sort) *Term { return c.mk(&Term{Op: "sym", Name: name, S: s}) }
func (c *Ctx) Fresh(prefix string, s *Sort) *Term {
	c.fresh++
	return c.Sym(fmt.Sprintf("%s!%d", sanitize(prefix), c.fresh), s)
}
func (c *Ctx) Bound(name string, s *Sort) *Term {
	c.fresh++
	return c.mk(&Term{Op: "bound", Name: fmt.Sprintf("%s!b%d", sanitize(name), c.fresh), S: s})
}

func sanitize(s string) string {
	var sb strings.Builder
	for _, r := range s {
		switch {
		case r >= 'a' && r <= 'z', r >= 'A' && r <= 'Z', r >= '0' && r <= '9', r == '_', r == '.', r == '!', r == '$', r == '#':
			sb.WriteRune(r)
		default:
			sb.WriteByte('_')
		}
	}
	return sb.String()
}

func mask(w int) uint64 {
	if w >= 64 {
		return ^uint64(0)
	}
	return (uint64(1) << uint(w)) - 1
}

func (c *Ctx) BVLit(v uint64, w int) *Term {
	return c.mk(&Term{Op: "bv", V: v & mask(w), S: BV(w)})
}
func (c *Ctx) Bool(b bool) *Term {
	v := uint64(0)
	if b {
		v = 1
	}
	return c.mk(&Term{Op: "bool", V: v, S: BoolS})
}
func (c *Ctx) Int(v int64) *Term {
	return c.mk(&Term{Op: "int", V: uint64(v), S: IntS})
}
func (c *Ctx) RealLit(s string) *Term { return c.mk(&Term{Op: "real", Name: s, S: RealS}) }

func (c *Ctx) True() *Term  { return c.Bool(true) }
func (c *Ctx) False() *Term { return c.Bool(false) }

func (t *Term) IsLit() bool   { return t.Op == "bv" || t.Op == "bool" || t.Op == "int" }
func (t *Term) IsTrue() bool  { return t.Op == "bool" && t.V == 1 }
func (t *Term) IsFalse() bool { return t.Op == "bool" && t.V == 0 }
func (t *Term) SInt() int64   { return signExt(t.V, t.S.W) }
func signExt(v uint64, w int) int64 {
	if w >= 64 {
		return int64(v)
	}
	if v&(1<<uint(w-1)) != 0 {
		return int64(v | ^mask(w))
	}
	return int64(v)
}

func (c *Ctx) Not(a *Term) *Term {
	if a.Op == "bool" {
		return c.Bool(a.V == 0)
	}
	if a.Op == "not" {
		return a.Args[0]
	}
	return c.mk(&Term{Op: "not", Args: []*Term{a}, S: BoolS})
}

func (c *Ctx) And(as ...*Term) *Term {
	var out []*Term
	seen := map[*Term]bool{}
	for _, a := range as {
		if a == nil || a.IsTrue() {
			continue
		}
		if a.IsFalse() {
			return c.False()
		}
		if a.Op == "and" {
			for _, b := range a.Args {
				if !seen[b] {
					seen[b] = true
					out = append(out, b)
				}
			}
			continue
		}
		if !seen[a] {
			seen[a] = true
			out = append(out, a)
		}
	}
	for _, a := range out {
		if a.Op == "not" && seen[a.Args[0]] {
			return c.False()
		}
	}
	if len(out) == 0 {
		return c.True()
	}
	if len(out) == 1 {
		return out[0]
	}
	return c.mk(&Term{Op: "and", Args: out, S: BoolS})
}

func (c *Ctx) Or(as ...*Term) *Term {
	var out []*Term
	seen := map[*Term]bool{}
	for _, a := range as {
		if a == nil || a.IsFalse() {
			continue
		}
		if a.IsTrue() {
			return c.True()
		}
		if a.Op == "or" {
			for _, b := range a.Args {
				if !seen[b] {
					seen[b] = true
					out = append(out, b)
				}
			}
			continue
		}
		if !seen[a] {
			seen[a] = true
			out = append(out, a)
		}
	}
	for _, a := range out {
		if a.Op == "not" && seen[a.Args[0]] {
			return c.True()
		}
	}
	if len(out) == 0 {
		return c.False()
	}
	if len(out) == 1 {
		return out[0]
	}
	return c.mk(&Term{Op: "or", Args: out, S: BoolS})
}

func (c *Ctx) Implies(a, b *Term) *Term { return c.Or(c.Not(a), b) }

func (c *Ctx) Ite(cnd, a, b *Term) *Term {
	if cnd.IsTrue() {
		return a
	}
	if cnd.IsFalse() {
		return b
	}
	if a == b {
		return a
	}
	if a.S != b.S {
		panic(fmt.Sprintf("ite sort mismatch %s vs %s", a.S, b.S))
	}
	if a.S == BoolS {
		if a.IsTrue() && b.IsFalse() {
			return cnd
		}
		if a.IsFalse() && b.IsTrue() {
			return c.Not(cnd)
		}
		if a.IsTrue() {
			return c.Or(cnd, b)
		}
		if a.IsFalse() {
			return c.And(c.Not(cnd), b)
		}
		if b.IsTrue() {
			return c.Or(c.Not(cnd), a)
		}
		if b.IsFalse() {
			return c.And(cnd, a)
		}
	}
	// ite(c, x, ite(c, y, z)) = ite(c, x, z)
	if b.Op == "ite" && b.Args[0] == cnd {
		b = b.Args[2]
	}
	if a.Op == "ite" && a.Args[0] == cnd {
		a = a.Args[1]
	}
	return c.mk(&Term{Op: "ite", Args: []*Term{cnd, a, b}, S: a.S})
}

func (c *Ctx) Eq(a, b *Term) *Term {
	if a == b {
		return c.True()
	}
	if a.S != b.S {
		panic(fmt.Sprintf("eq sort mismatch %s vs %s (%s / %s)", a.S, b.S, c.Show(a), c.Show(b)))
	}
	if a.IsLit() && b.IsLit() {
		return c.Bool(a.V == b.V)
	}
	if a.S == BoolS {
		if a.IsTrue() {
			return b
		}
		if b.IsTrue() {
			return a
		}
		if a.IsFalse() {
			return c.Not(b)
		}
		if b.IsFalse() {
			return c.Not(a)
		}
	}
	if a.S == RefS && c.refsDistinct(a, b) {
		return c.False()
	}
	if a.id > b.id {
		a, b = b, a
	}
	return c.mk(&Term{Op: "=", Args: []*Term{a, b}, S: BoolS})
}

func (c *Ctx) Neq(a, b *Term) *Term { return c.Not(c.Eq(a, b)) }

// ---- Ref datatype -------------------------------------------------------

// IsRoot / RootID: datatype tester and selector
func (c *Ctx) IsRoot(r *Term) *Term {
	if r.Op == "root" {
		return c.True()
	}
	if r.Op == "nilref" || r.Op == "sub" || r.Op == "idx" {
		return c.False()
	}
	return c.mk(&Term{Op: "is-root", Args: []*Term{r}, S: BoolS})
}

// PreExisting: the object the reference lies in (following field / element
// steps up to depth levels) was allocated before identity a0.
func (c *Ctx) PreExisting(r, a0 *Term, depth int) *Term {
	switch r.Op {
	case "nilref":
		return c.True()
	case "root":
		return c.IntLt(r.Args[0], a0)
	case "sub", "idx":
		return c.PreExisting(r.Args[0], a0, depth)
	}
	rootCase := c.Or(c.Not(c.IsRoot(r)), c.IntLt(c.RootID(r), a0))
	if depth == 0 {
		return rootCase
	}
	isSub := c.mk(&Term{Op: "is-sub", Args: []*Term{r}, S: BoolS})
	isIdx := c.mk(&Term{Op: "is-idx", Args: []*Term{r}, S: BoolS})
	subp := c.mk(&Term{Op: "subp", Args: []*Term{r}, S: RefS})
	idxp := c.mk(&Term{Op: "idxp", Args: []*Term{r}, S: RefS})
	return c.And(rootCase, c.Or(c.Not(isSub), c.PreExisting(subp, a0, depth-1)), c.Or(c.Not(isIdx), c.PreExisting(idxp, a0, depth-1)))
}

// InObject: r is the reference obj or lies inside the object obj (field / element steps, up to depth).
func (c *Ctx) InObject(r, obj *Term, depth int) *Term {
	if r == obj {
		return c.True()
	}
	switch r.Op {
	case "nilref", "root":
		return c.Eq(r, obj)
	case "sub", "idx":
		return c.InObject(r.Args[0], obj, depth)
	}
	if depth == 0 {
		return c.Eq(r, obj)
	}
	isSub := c.mk(&Term{Op: "is-sub", Args: []*Term{r}, S: BoolS})
	isIdx := c.mk(&Term{Op: "is-idx", Args: []*Term{r}, S: BoolS})
	subp := c.mk(&Term{Op: "subp", Args: []*Term{r}, S: RefS})
	idxp := c.mk(&Term{Op: "idxp", Args: []*Term{r}, S: RefS})
	return c.Or(c.Eq(r, obj), c.And(isSub, c.InObject(subp, obj, depth-1)), c.And(isIdx, c.InObject(idxp, obj, depth-1)))
}

// NewObject: the object r lies in was allocated at or after identity a0.
func (c *Ctx) NewObject(r, a0 *Term, depth int) *Term {
	switch r.Op {
	case "nilref":
		return c.False()
	case "root":
		return c.IntLe(a0, r.Args[0])
	case "sub", "idx":
		return c.NewObject(r.Args[0], a0, depth)
	}
	rootCase := c.And(c.IsRoot(r), c.IntLe(a0, c.RootID(r)))
	if depth == 0 {
		return rootCase
	}
	isSub := c.mk(&Term{Op: "is-sub", Args: []*Term{r}, S: BoolS})
	isIdx := c.mk(&Term{Op: "is-idx", Args: []*Term{r}, S: BoolS})
	subp := c.mk(&Term{Op: "subp", Args: []*Term{r}, S: RefS})
	idxp := c.mk(&Term{Op: "idxp", Args: []*Term{r}, S: RefS})
	return c.Or(rootCase, c.And(isSub, c.NewObject(subp, a0, depth-1)), c.And(isIdx, c.NewObject(idxp, a0, depth-1)))
}

func (c *Ctx) RootID(r *Term) *Term {
	if r.Op == "root" {
		return r.Args[0]
	}
	return c.mk(&Term{Op: "rootid", Args: []*Term{r}, S: IntS})
}

func (c *Ctx) NilRef() *Term { return c.mk(&Term{Op: "nilref", S: RefS}) }
func (c *Ctx) Root(id *Term) *Term {
	return c.mk(&Term{Op: "root", Args: []*Term{id}, S: RefS})
}
func (c *Ctx) Sub(p *Term, f int) *Term {
	return c.mk(&Term{Op: "sub", Args: []*Term{p, c.Int(int64(f))}, S: RefS})
}
func (c *Ctx) Idx(p *Term, i *Term) *Term {
	return c.mk(&Term{Op: "idx", Args: []*Term{p, i}, S: RefS})
}

// refsDistinct reports whether two Ref terms are syntactically guaranteed
// to differ (datatype constructors are injective and disjoint).
func (c *Ctx) refsDistinct(a, b *Term) bool {
	isCons := func(t *Term) bool {
		return t.Op == "nilref" || t.Op == "root" || t.Op == "sub" || t.Op == "idx"
	}
	// the backing array of an input slice/string is never an object created by
	// a package initialiser or a package-level variable (stated assumption)
	inputBase := func(t *Term) bool { return t.Op == "sym" && strings.HasSuffix(t.Name, ".base") }
	initObj := func(t *Term) bool {
		return t.Op == "root" && t.Args[0].Op == "int" && int64(t.Args[0].V) < 0
	}
	if (inputBase(a) && initObj(b)) || (inputBase(b) && initObj(a)) {
		return true
	}
	// ... nor an array embedded in a struct (slice parameters are disjoint from the receiver's own storage)
	if (inputBase(a) && b.Op == "sub") || (inputBase(b) && a.Op == "sub") {
		return true
	}
	// an object allocated by this invocation is distinct from anything that existed before
	freshObj := func(t *Term) bool {
		if t.Op != "root" {
			return false
		}
		x := t.Args[0]
		return (x.Op == "sym" && x.Name == "A0") || (x.Op == "+" && x.Args[0].Op == "sym" && x.Args[0].Name == "A0")
	}
	if (freshObj(a) && c.preExisting(b)) || (freshObj(b) && c.preExisting(a)) {
		return true
	}
	if !isCons(a) || !isCons(b) {
		return false
	}
	if a.Op != b.Op {
		return true
	}
	switch a.Op {
	case "nilref":
		return false
	case "root":
		x, y := a.Args[0], b.Args[0]
		if x.Op == "int" && y.Op == "int" {
			return x.V != y.V
		}
		// A0+k vs A0+j
		if x.Op == "+" && y.Op == "+" && x.Args[0] == y.Args[0] && x.Args[1].Op == "int" && y.Args[1].Op == "int" {
			return x.Args[1].V != y.Args[1].V
		}
		return false
	case "sub":
		if a.Args[1] != b.Args[1] {
			return true
		}
		return c.refsDistinct(a.Args[0], b.Args[0])
	case "idx":
		if c.refsDistinct(a.Args[0], b.Args[0]) {
			return true
		}
		if a.Args[0] == b.Args[0] && a.Args[1].IsLit() && b.Args[1].IsLit() {
			return a.Args[1].V != b.Args[1].V
		}
	}
	return false
}

// ---- Int (object ids) ----------------------------------------------------

func (c *Ctx) IntAdd(a, b *Term) *Term {
	if a.Op == "int" && b.Op == "int" {
		return c.Int(int64(a.V) + int64(b.V))
	}
	return c.mk(&Term{Op: "+", Args: []*Term{a, b}, S: IntS})
}
func (c *Ctx) IntLt(a, b *Term) *Term {
	if a.Op == "int" && b.Op == "int" {
		return c.Bool(int64(a.V) < int64(b.V))
	}
	return c.mk(&Term{Op: "<", Args: []*Term{a, b}, S: BoolS})
}
func (c *Ctx) IntLe(a, b *Term) *Term {
	if a.Op == "int" && b.Op == "int" {
		return c.Bool(int64(a.V) <= int64(b.V))
	}
	return c.mk(&Term{Op: "<=", Args: []*Term{a, b}, S: BoolS})
}

// ---- bit-vectors ----------------------------------------------------------

func (c *Ctx) bin(op string, a, b *Term, s *Sort) *Term {
	return c.mk(&Term{Op: op, Args: []*Term{a, b}, S: s})
}

func (c *Ctx) BVBin(op string, a, b *Term) *Term {
	if a.S != b.S {
		panic(fmt.Sprintf("bv %s sort mismatch %s vs %s: %s / %s", op, a.S, b.S, c.Show(a), c.Show(b)))
	}
	w := a.S.W
	if a.Op == "bv" && b.Op == "bv" {
		x, y := a.V, b.V
		switch op {
		case "bvadd":
			return c.BVLit(x+y, w)
		case "bvsub":
			return c.BVLit(x-y, w)
		case "bvmul":
			return c.BVLit(x*y, w)
		case "bvand":
			return c.BVLit(x&y, w)
		case "bvor":
			return c.BVLit(x|y, w)
		case "bvxor":
			return c.BVLit(x^y, w)
		case "bvshl":
			if y >= uint64(w) {
				return c.BVLit(0, w)
			}
			return c.BVLit(x<<y, w)
		case "bvlshr":
			if y >= uint64(w) {
				return c.BVLit(0, w)
			}
			return c.BVLit(x>>y, w)
		case "bvudiv":
			if y != 0 {
				return c.BVLit(x/y, w)
			}
		case "bvurem":
			if y != 0 {
				return c.BVLit(x%y, w)
			}
		case "bvsdiv":
			if y != 0 {
				sx, sy := signExt(x, w), signExt(y, w)
				if !(sy == -1 && sx == -sx && sx != 0) {
					return c.BVLit(uint64(sx/sy), w)
				}
			}
		case "bvsrem":
			if y != 0 {
				sx, sy := signExt(x, w), signExt(y, w)
				if sy != -1 {
					return c.BVLit(uint64(sx%sy), w)
				}
				return c.BVLit(0, w)
			}
		case "bvashr":
			sx := signExt(x, w)
			if y >= uint64(w) {
				y = uint64(w - 1)
			}
			return c.BVLit(uint64(sx>>y), w)
		}
	}
	switch op {
	case "bvadd":
		if a.Op == "bv" && a.V == 0 {
			return b
		}
		if b.Op == "bv" && b.V == 0 {
			return a
		}
		// (x + k1) + k2
		if b.Op == "bv" && a.Op == "bvadd" && a.Args[1].Op == "bv" {
			return c.BVBin("bvadd", a.Args[0], c.BVLit(a.Args[1].V+b.V, w))
		}
		if a.Op == "bv" {
			a, b = b, a
		}
	case "bvsub":
		if b.Op == "bv" && b.V == 0 {
			return a
		}
		if a == b {
			return c.BVLit(0, w)
		}
		{
			// (x + k1) - (x + k2) = k1 - k2
			ba, ka := a, uint64(0)
			if a.Op == "bvadd" && a.Args[1].Op == "bv" {
				ba, ka = a.Args[0], a.Args[1].V
			}
			bb, kb := b, uint64(0)
			if b.Op == "bvadd" && b.Args[1].Op == "bv" {
				bb, kb = b.Args[0], b.Args[1].V
			}
			if ba == bb {
				return c.BVLit(ka-kb, w)
			}
		}
		if b.Op == "bv" {
			return c.BVBin("bvadd", a, c.BVLit(-b.V, w))
		}
	case "bvmul":
		if b.Op == "bv" && b.V == 1 {
			return a
		}
		if a.Op == "bv" && a.V == 1 {
			return b
		}
	case "bvand":
		if a == b {
			return a
		}
		if b.Op == "bv" && b.V == mask(w) {
			return a
		}
		if a.Op == "bv" && a.V == mask(w) {
			return b
		}
		if (a.Op == "bv" && a.V == 0) || (b.Op == "bv" && b.V == 0) {
			return c.BVLit(0, w)
		}
	case "bvor", "bvxor":
		if b.Op == "bv" && b.V == 0 {
			return a
		}
		if a.Op == "bv" && a.V == 0 {
			return b
		}
	case "bvshl", "bvlshr", "bvashr":
		if b.Op == "bv" && b.V == 0 {
			return a
		}
	}
	return c.bin(op, a, b, a.S)
}

func (c *Ctx) BVNeg(a *Term) *Term {
	if a.Op == "bv" {
		return c.BVLit(-a.V, a.S.W)
	}
	return c.mk(&Term{Op: "bvneg", Args: []*Term{a}, S: a.S})
}
func (c *Ctx) BVNot(a *Term) *Term {
	if a.Op == "bv" {
		return c.BVLit(^a.V, a.S.W)
	}
	return c.mk(&Term{Op: "bvnot", Args: []*Term{a}, S: a.S})
}

func (c *Ctx) BVCmp(op string, a, b *Term) *Term {
	if a.S != b.S {
		panic(fmt.Sprintf("bv cmp %s sort mismatch %s vs %s: %s / %s", op, a.S, b.S, c.Show(a), c.Show(b)))
	}
	w := a.S.W
	if a.Op == "bv" && b.Op == "bv" {
		switch op {
		case "bvult":
			return c.Bool(a.V < b.V)
		case "bvule":
			return c.Bool(a.V <= b.V)
		case "bvslt":
			return c.Bool(signExt(a.V, w) < signExt(b.V, w))
		case "bvsle":
			return c.Bool(signExt(a.V, w) <= signExt(b.V, w))
		}
	}
	if a == b {
		return c.Bool(op == "bvule" || op == "bvsle")
	}
	return c.bin(op, a, b, BoolS)
}

func (c *Ctx) Extract(hi, lo int, a *Term) *Term {
	if lo == 0 && hi == a.S.W-1 {
		return a
	}
	if a.Op == "bv" {
		return c.BVLit(a.V>>uint(lo), hi-lo+1)
	}
	// extract of zero_extend / sign_extend that stays within the original
	if (a.Op == "zero_extend" || a.Op == "sign_extend") && hi < a.Args[0].S.W {
		return c.Extract(hi, lo, a.Args[0])
	}
	if a.Op == "zero_extend" && lo == 0 && hi >= a.Args[0].S.W {
		return c.ZeroExt(hi+1-a.Args[0].S.W, a.Args[0])
	}
	return c.mk(&Term{Op: "extract", Args: []*Term{a}, I: hi, J: lo, S: BV(hi - lo + 1)})
}
func (c *Ctx) ZeroExt(n int, a *Term) *Term {
	if n == 0 {
		return a
	}
	if a.Op == "bv" {
		return c.BVLit(a.V, a.S.W+n)
	}
	if a.Op == "zero_extend" {
		return c.ZeroExt(n+a.I, a.Args[0])
	}
	return c.mk(&Term{Op: "zero_extend", Args: []*Term{a}, I: n, S: BV(a.S.W + n)})
}
func (c *Ctx) SignExt(n int, a *Term) *Term {
	if n == 0 {
		return a
	}
	if a.Op == "bv" {
		return c.BVLit(uint64(signExt(a.V, a.S.W)), a.S.W+n)
	}
	if a.Op == "zero_extend" { // top bit known zero
		return c.ZeroExt(n+a.I, a.Args[0])
	}
	return c.mk(&Term{Op: "sign_extend", Args: []*Term{a}, I: n, S: BV(a.S.W + n)})
}

// Resize converts a bit-vector to width w, sign- or zero-extending.
func (c *Ctx) Resize(a *Term, w int, signed bool) *Term {
	if a.S.W == w {
		return a
	}
	if a.S.W > w {
		return c.Extract(w-1, 0, a)
	}
	if signed {
		return c.SignExt(w-a.S.W, a)
	}
	return c.ZeroExt(w-a.S.W, a)
}

// ---- arrays ---------------------------------------------------------------

func (c *Ctx) indicesDistinct(i, j *Term) bool {
	if i.S == RefS {
		return c.refsDistinct(i, j)
	}
	if i.IsLit() && j.IsLit() {
		return i.V != j.V
	}
	// x+k1 vs x+k2, x vs x+k
	base := func(t *Term) (*Term, uint64) {
		if t.Op == "bvadd" && t.Args[1].Op == "bv" {
			return t.Args[0], t.Args[1].V
		}
		return t, 0
	}
	if i.S.K == SBV {
		bi, ki := base(i)
		bj, kj := base(j)
		if bi == bj && ki != kj {
			return true
		}
	}
	return false
}

// preExisting: the Ref term can only denote an object that existed at
// function entry (it mentions neither a fresh allocation nor a havocked value).
func (c *Ctx) preExisting(t *Term) bool {
	if c.preMemo == nil {
		c.preMemo = map[*Term]bool{}
	}
	if r, ok := c.preMemo[t]; ok {
		return r
	}
	r := true
	switch {
	case t.Op == "sym":
		r = !strings.Contains(t.Name, "!") && t.Name != "A0"
	case t.Op == "bound", t.Op == "app":
		r = false
	default:
		for _, a := range t.Args {
			if !c.preExisting(a) {
				r = false
				break
			}
		}
	}
	c.preMemo[t] = r
	return r
}

func (c *Ctx) Select(a, i *Term) *Term {
	if a.S.K != SArr {
		panic("select on non-array " + a.S.s + " " + c.Show(a))
	}
	if a.S.I != i.S {
		panic(fmt.Sprintf("select index sort mismatch: array %s index %s", a.S, i.S))
	}
	if i.Op == "ite" && i.S == RefS && c.selDepth < 6 {
		c.selDepth++
		sa, sb := c.Select(a, i.Args[1]), c.Select(a, i.Args[2])
		c.selDepth--
		if sa == sb {
			return sa
		}
		return c.Ite(i.Args[0], sa, sb)
	}
	if a.Op == "ite" && c.selDepth < 6 {
		c.selDepth++
		sa, sb := c.Select(a.Args[1], i), c.Select(a.Args[2], i)
		c.selDepth--
		if sa == sb {
			return sa
		}
		bare := func(s, arr *Term) bool { return s.Op == "select" && s.Args[0] == arr && s.Args[1] == i }
		if !bare(sa, a.Args[1]) || !bare(sb, a.Args[2]) {
			return c.Ite(a.Args[0], sa, sb)
		}
	}
	for a.Op == "store" {
		if a.Args[1] == i {
			return a.Args[2]
		}
		if c.indicesDistinct(a.Args[1], i) {
			a = a.Args[0]
			continue
		}
		break
	}
	if a.Op == "constarr" {
		return a.Args[0]
	}
	return c.mk(&Term{Op: "select", Args: []*Term{a, i}, S: a.S.E})
}

func (c *Ctx) Store(a, i, v *Term) *Term {
	if a.S.K != SArr || a.S.I != i.S || a.S.E != v.S {
		panic(fmt.Sprintf("store sort mismatch: %s [%s] := %s", a.S, i.S, v.S))
	}
	if a.Op == "store" && a.Args[1] == i {
		a = a.Args[0]
	}
	// store(a, i, select(a, i)) = a
	if v.Op == "select" && v.Args[0] == a && v.Args[1] == i {
		return a
	}
	return c.mk(&Term{Op: "store", Args: []*Term{a, i, v}, S: a.S})
}

func (c *Ctx) ConstArr(s *Sort, v *Term) *Term {
	return c.mk(&Term{Op: "constarr", Args: []*Term{v}, S: s})
}

// ---- quantifiers and uninterpreted functions ------------------------------

func (c *Ctx) Forall(vars []*Term, body *Term) *Term {
	if body.IsTrue() {
		return body
	}
	return c.mk(&Term{Op: "forall", Args: append(append([]*Term{}, vars...), body), I: len(vars), S: BoolS})
}

// ForallPat is Forall with an instantiation pattern (E-matching trigger).
func (c *Ctx) ForallPat(vars []*Term, body *Term, pat *Term) *Term {
	if !patternSafe(pat) {
		return c.Forall(vars, body)
	}
	if body.IsTrue() {
		return body
	}
	return c.mk(&Term{Op: "forall", Args: append(append(append([]*Term{}, vars...), body), pat), I: len(vars), J: 1, S: BoolS})
}
func (c *Ctx) Exists(vars []*Term, body *Term) *Term {
	if body.IsFalse() {
		return body
	}
	return c.mk(&Term{Op: "exists", Args: append(append([]*Term{}, vars...), body), I: len(vars), S: BoolS})
}

func (c *Ctx) App(name string, ret *Sort, args ...*Term) *Term {
	name = sanitize(name)
	if _, ok := c.ufuncs[name]; !ok {
		u := &UFunc{Name: name, Ret: ret}
		for _, a := range args {
			u.Args = append(u.Args, a.S)
		}
		c.ufuncs[name] = u
	} else {
		u := c.ufuncs[name]
		if len(u.Args) != len(args) || u.Ret != ret {
			panic("ufunc " + name + " used at inconsistent arity/sort")
		}
		for i, a := range args {
			if u.Args[i] != a.S {
				panic(fmt.Sprintf("ufunc %s arg %d sort %s vs %s", name, i, u.Args[i], a.S))
			}
		}
	}
	return c.mk(&Term{Op: "app", Name: name, Args: args, S: ret})
}

// Real arithmetic (used only in the float functions)
func (c *Ctx) RealBin(op string, a, b *Term) *Term { return c.bin(op, a, b, RealS) }
func (c *Ctx) RealCmp(op string, a, b *Term) *Term { return c.bin(op, a, b, BoolS) }

// ---- substitution ----------------------------------------------------------

// Subst rebuilds t with the given replacement of (leaf or inner) terms.
func (c *Ctx) Subst(t *Term, m map[*Term]*Term) *Term {
	memo := map[*Term]*Term{}
	var rec func(t *Term) *Term
	rec = func(t *Term) *Term {
		if r, ok := m[t]; ok {
			return r
		}
		if r, ok := memo[t]; ok {
			return r
		}
		if len(t.Args) == 0 {
			memo[t] = t
			return t
		}
		args := make([]*Term, len(t.Args))
		ch := false
		for i, a := range t.Args {
			args[i] = rec(a)
			if args[i] != a {
				ch = true
			}
		}
		var r *Term
		if !ch {
			r = t
		} else {
			r = c.rebuild(t, args)
		}
		memo[t] = r
		return r
	}
	return rec(t)
}

func (c *Ctx) rebuild(t *Term, a []*Term) *Term {
	switch t.Op {
	case "not":
		return c.Not(a[0])
	case "and":
		return c.And(a...)
	case "or":
		return c.Or(a...)
	case "ite":
		return c.Ite(a[0], a[1], a[2])
	case "=":
		return c.Eq(a[0], a[1])
	case "select":
		return c.Select(a[0], a[1])
	case "store":
		return c.Store(a[0], a[1], a[2])
	case "extract":
		return c.Extract(t.I, t.J, a[0])
	case "zero_extend":
		return c.ZeroExt(t.I, a[0])
	case "sign_extend":
		return c.SignExt(t.I, a[0])
	case "bvneg":
		return c.BVNeg(a[0])
	case "bvnot":
		return c.BVNot(a[0])
	case "bvult", "bvule", "bvslt", "bvsle":
		return c.BVCmp(t.Op, a[0], a[1])
	case "bvadd", "bvsub", "bvmul", "bvand", "bvor", "bvxor", "bvshl", "bvlshr", "bvashr", "bvudiv", "bvurem", "bvsdiv", "bvsrem":
		return c.BVBin(t.Op, a[0], a[1])
	case "root":
		return c.Root(a[0])
	case "sub":
		return c.Sub(a[0], int(a[1].V))
	case "idx":
		return c.Idx(a[0], a[1])
	case "+":
		return c.IntAdd(a[0], a[1])
	}
	n := *t
	n.Args = a
	n.id = 0
	n.hb = false
	return c.mk(&n)
}

// ---- printing --------------------------------------------------------------

func (c *Ctx) Show(t *Term) string {
	var sb strings.Builder
	c.print(&sb, t, nil, 0)
	s := sb.String()
	if len(s) > 400 {
		s = s[:400] + "..."
	}
	return s
}

func (c *Ctx) print(sb *strings.Builder, t *Term, names map[*Term]string, depth int) {
	if n, ok := names[t]; ok {
		sb.WriteString(n)
		return
	}
	switch t.Op {
	case "sym", "bound":
		sb.WriteString(quoteSym(t.Name))
	case "bv":
		w := t.S.W
		if w%4 == 0 {
			fmt.Fprintf(sb, "#x%0*x", w/4, t.V)
		} else {
			fmt.Fprintf(sb, "#b%0*b", w, t.V)
		}
	case "bool":
		if t.V == 1 {
			sb.WriteString("true")
		} else {
			sb.WriteString("false")
		}
	case "int":
		v := int64(t.V)
		if v < 0 {
			fmt.Fprintf(sb, "(- %d)", -v)
		} else {
			fmt.Fprintf(sb, "%d", v)
		}
	case "real":
		sb.WriteString(t.Name)
	case "nilref":
		sb.WriteString("nilref")
	case "extract":
		fmt.Fprintf(sb, "((_ extract %d %d) ", t.I, t.J)
		c.print(sb, t.Args[0], names, depth+1)
		sb.WriteByte(')')
	case "zero_extend", "sign_extend":
		fmt.Fprintf(sb, "((_ %s %d) ", t.Op, t.I)
		c.print(sb, t.Args[0], names, depth+1)
		sb.WriteByte(')')
	case "rootid":
		sb.WriteString("(rootid ")
		c.print(sb, t.Args[0], names, depth+1)
		sb.WriteByte(')')
	case "is-root":
		sb.WriteString("((_ is root) ")
		c.print(sb, t.Args[0], names, depth+1)
		sb.WriteByte(')')
	case "is-sub", "is-idx":
		sb.WriteString("((_ is " + t.Op[3:] + ") ")
		c.print(sb, t.Args[0], names, depth+1)
		sb.WriteByte(')')
	case "subp", "idxp":
		sb.WriteString("(" + t.Op + " ")
		c.print(sb, t.Args[0], names, depth+1)
		sb.WriteByte(')')
	case "int2bv":
		fmt.Fprintf(sb, "((_ int2bv %d) ", t.I)
		c.print(sb, t.Args[0], names, depth+1)
		sb.WriteByte(')')
	case "constarr":
		fmt.Fprintf(sb, "((as const %s) ", t.S.s)
		c.print(sb, t.Args[0], names, depth+1)
		sb.WriteByte(')')
	case "forall", "exists":
		fmt.Fprintf(sb, "(%s (", t.Op)
		for i := 0; i < t.I; i++ {
			fmt.Fprintf(sb, "(%s %s)", quoteSym(t.Args[i].Name), t.Args[i].S.s)
		}
		sb.WriteString(") ")
		if t.J == 1 {
			sb.WriteString("(! ")
			c.print(sb, t.Args[t.I], names, depth+1)
			sb.WriteString(" :pattern (")
			c.print(sb, t.Args[t.I+1], names, depth+1)
			sb.WriteString("))")
		} else {
			c.print(sb, t.Args[t.I], names, depth+1)
		}
		sb.WriteByte(')')
	case "app":
		if len(t.Args) == 0 {
			sb.WriteString(quoteSym(t.Name))
			return
		}
		sb.WriteByte('(')
		sb.WriteString(quoteSym(t.Name))
		for _, a := range t.Args {
			sb.WriteByte(' ')
			c.print(sb, a, names, depth+1)
		}
		sb.WriteByte(')')
	default:
		op := t.Op
		if _, abs := names[absMarker]; abs {
			if n, ok := absName(t); ok {
				op = n
			}
		}
		sb.WriteByte('(')
		sb.WriteString(op)
		for _, a := range t.Args {
			sb.WriteByte(' ')
			c.print(sb, a, names, depth+1)
		}
		sb.WriteByte(')')
	}
}

func quoteSym(s string) string {
	for _, r := range s {
		if !(r >= 'a' && r <= 'z' || r >= 'A' && r <= 'Z' || r >= '0' && r <= '9' || r == '_' || r == '.' || r == '!' || r == '$') {
			return "|" + s + "|"
		}
	}
	return s
}

const smtPrelude = `(declare-datatypes ((Ref 0)) (((nilref) (root (rootid Int)) (sub (subp Ref) (subf Int)) (idx (idxp Ref) (idxi (_ BitVec 64))))))
`

// Script renders an SMT-LIB script asserting all of `asserts`, followed by
// check-sat and (optionally) get-value on `values`.
func (c *Ctx) Script(asserts []*Term, values []*Term, logicHint string) string {
	main, hard := c.script(asserts, values, false)
	if hard && len(values) == 0 {
		// second rendering with multiplication/division/bv2nat abstracted to uninterpreted
		// functions: an over-approximation, so only its "unsat" answers are used (solver.go)
		abs, _ := c.script(asserts, nil, true)
		return main + absSeparator + abs
	}
	return main
}

const absSeparator = ";;;ABSTRACT-ARITHMETIC-VARIANT\n"

var absMarker = &Term{Op: "abs-marker"}

// absName: the uninterpreted function standing for a hard arithmetic operator in the abstract variant.
func absName(t *Term) (string, bool) {
	switch t.Op {
	case "bvmul", "bvudiv", "bvurem", "bvsdiv", "bvsrem":
		if t.Args[0].IsLit() || t.Args[1].IsLit() {
			return "", false
		}
		return fmt.Sprintf("abs_%s_%d", t.Op, t.S.W), true
	case "*", "/":
		if t.S == RealS && len(t.Args) == 2 && t.Args[0].Op != "real" && t.Args[1].Op != "real" {
			if t.Op == "*" {
				return "abs_rmul", true
			}
			return "abs_rdiv", true
		}
	case "bv2nat":
		if t.Args[0].S.W > 16 {
			return fmt.Sprintf("abs_bv2nat_%d", t.Args[0].S.W), true
		}
	}
	return "", false
}

func (c *Ctx) script(asserts []*Term, values []*Term, abs bool) (string, bool) {
	if ax := c.contentAxioms(asserts); len(ax) > 0 {
		asserts = append(append([]*Term{}, asserts...), ax...)
	}
	// collect reachable nodes, refcounts
	ref := map[*Term]int{}
	var order []*Term
	var visit func(t *Term)
	visit = func(t *Term) {
		ref[t]++
		if ref[t] > 1 {
			return
		}
		for _, a := range t.Args {
			visit(a)
		}
		order = append(order, t)
	}
	for _, a := range asserts {
		visit(a)
	}
	for _, v := range values {
		visit(v)
	}
	var sb strings.Builder
	sb.WriteString("(set-option :produce-models true)\n")
	sb.WriteString("(set-logic ALL)\n")
	sb.WriteString(smtPrelude)
	hard := false
	absDecl := map[string]bool{}
	for _, t := range order {
		if n, ok := absName(t); ok {
			hard = true
			if abs && !absDecl[n] {
				absDecl[n] = true
				sb.WriteString("(declare-fun " + n + " (")
				for i, a := range t.Args {
					if i > 0 {
						sb.WriteByte(' ')
					}
					sb.WriteString(a.S.s)
				}
				sb.WriteString(") " + t.S.s + ")\n")
			}
		}
	}
	// declarations
	syms := map[string]*Term{}
	ufs := map[string]bool{}
	for _, t := range order {
		if t.Op == "sym" {
			syms[t.Name] = t
		}
		if t.Op == "app" {
			ufs[t.Name] = true
		}
	}
	var names []string
	for n := range syms {
		names = append(names, n)
	}
	sort.Strings(names)
	for _, n := range names {
		fmt.Fprintf(&sb, "(declare-const %s %s)\n", quoteSym(n), syms[n].S.s)
	}
	names = names[:0]
	for n := range ufs {
		names = append(names, n)
	}
	sort.Strings(names)
	for _, n := range names {
		u := c.ufuncs[n]
		sb.WriteString("(declare-fun " + quoteSym(n) + " (")
		for i, a := range u.Args {
			if i > 0 {
				sb.WriteByte(' ')
			}
			sb.WriteString(a.s)
		}
		sb.WriteString(") " + u.Ret.s + ")\n")
	}
	// shared subterms -> define-fun
	nm := map[*Term]string{}
	if abs {
		nm[absMarker] = "abs"
	}
	for k, t := range order {
		if len(t.Args) == 0 || t.hb {
			continue
		}
		if ref[t] > 1 || t.Op == "store" || t.Op == "ite" {
			name := fmt.Sprintf("t%d", k)
			sb.WriteString("(define-fun " + name + " () " + t.S.s + " ")
			c.print(&sb, t, nm, 0)
			sb.WriteString(")\n")
			nm[t] = name
		}
	}
	for _, a := range asserts {
		sb.WriteString("(assert ")
		c.print(&sb, a, nm, 0)
		sb.WriteString(")\n")
	}
	sb.WriteString("(check-sat)\n")
	if len(values) > 0 {
		sb.WriteString("(get-value (")
		for _, v := range values {
			c.print(&sb, v, nm, 0)
			sb.WriteByte(' ')
		}
		sb.WriteString("))\n")
	}
	return sb.String(), hard
}

// contentUF registers name as a function whose arguments i, i+1, i+2 are an
// (array, offset, length) triple of which only the denoted bytes matter.
func (c *Ctx) contentUF(name string, i int) {
	c.mkMu.Lock()
	defer c.mkMu.Unlock()
	if c.contentUFs == nil {
		c.contentUFs = map[string]int{}
	}
	c.contentUFs[name] = i
}

// contentAxioms: for every pair of applications of a content function in the
// terms, equal other arguments and equal denoted bytes give equal results.
func (c *Ctx) contentAxioms(asserts []*Term) []*Term {
	c.mkMu.Lock()
	n := len(c.contentUFs)
	idx := map[string]int{}
	for k, v := range c.contentUFs {
		idx[k] = v
	}
	c.mkMu.Unlock()
	if n == 0 {
		return nil
	}
	seen := map[*Term]bool{}
	apps := map[string][]*Term{}
	var visit func(t *Term)
	visit = func(t *Term) {
		if seen[t] {
			return
		}
		seen[t] = true
		if t.Op == "app" && !t.hb {
			if _, ok := idx[t.Name]; ok {
				apps[t.Name] = append(apps[t.Name], t)
			}
		}
		for _, a := range t.Args {
			visit(a)
		}
	}
	for _, a := range asserts {
		visit(a)
	}
	var out []*Term
	for _, name := range sortedStrKeys(apps) {
		ts := apps[name]
		i := idx[name]
		sort.Slice(ts, func(a, b int) bool { return ts[a].id < ts[b].id })
		if len(ts) > 24 {
			ts = ts[:24]
		}
		for x := 0; x < len(ts); x++ {
			for y := x + 1; y < len(ts); y++ {
				t1, t2 := ts[x], ts[y]
				var conds []*Term
				for j := range t1.Args {
					if j == i || j == i+1 {
						continue
					}
					conds = append(conds, c.Eq(t1.Args[j], t2.Args[j]))
				}
				k := c.Bound("kx", BV64)
				same := c.Forall([]*Term{k}, c.Implies(c.BVCmp("bvult", k, t1.Args[i+2]),
					c.Eq(c.Select(t1.Args[i], c.BVBin("bvadd", t1.Args[i+1], k)), c.Select(t2.Args[i], c.BVBin("bvadd", t2.Args[i+1], k)))))
				conds = append(conds, same)
				out = append(out, c.Implies(c.And(conds...), c.Eq(t1, t2)))
			}
		}
	}
	return out
}
