package main

import (
	"sort"

	"golang.org/x/tools/go/ssa"
)

// Deterministic iteration: the text of a query (term numbering, order of fresh symbols, order of
// candidates) must not depend on Go's randomised map order, so that a verdict obtained on one run
// is the verdict of every run on the same tree.

func sortedStrKeys[V any](m map[string]V) []string {
	ks := make([]string, 0, len(m))
	for k := range m {
		ks = append(ks, k)
	}
	sort.Strings(ks)
	return ks
}

func sortedTermKeys[V any](m map[*Term]V) []*Term {
	ks := make([]*Term, 0, len(m))
	for k := range m {
		ks = append(ks, k)
	}
	sort.Slice(ks, func(i, j int) bool { return ks[i].id < ks[j].id })
	return ks
}

func sortedBlocks[V any](m map[*ssa.BasicBlock]V) []*ssa.BasicBlock {
	ks := make([]*ssa.BasicBlock, 0, len(m))
	for k := range m {
		ks = append(ks, k)
	}
	sort.Slice(ks, func(i, j int) bool { return ks[i].Index < ks[j].Index })
	return ks
}
