package main

// Contract expression translation: typed go/ast -> terms.

import (
	"fmt"
	"go/ast"
	"go/constant"
	"go/parser"
	"go/token"
	"go/types"
	"regexp"
	"strings"

	"golang.org/x/tools/go/ssa"
)

type Env struct {
	e        *Encoder
	fr       *frame // frame whose locals may be named (nil at call sites)
	ct       *Contract
	vars     map[string]*SVal
	st       *State
	old      *State
	loop     *loopInfo
	bound    map[string]*Term
	info     *types.Info
	inOld    bool
	result   *SVal
	callSite bool
	callArgs []*SVal         // at-call clauses: the arguments of the call
	atInstr  ssa.Instruction // at-call clauses: the call instruction (locals are resolved as of this point)
}

// contractEnv builds the environment for evaluating ct's clauses. args are
// the actual parameters (receiver first) or nil to use fr's own parameters.
func (e *Encoder) contractEnv(fr *frame, ct *Contract, args []*SVal, st, old *State) *Env {
	env := &Env{e: e, fr: fr, ct: ct, vars: map[string]*SVal{}, st: st, old: old, bound: map[string]*Term{}}
	fn := ct.Fn
	for i, p := range fn.Params {
		if args != nil {
			if i < len(args) {
				env.vars[p.Name()] = args[i]
			}
		} else if fr != nil {
			if v, ok := fr.vals[p]; ok {
				env.vars[p.Name()] = v
			}
		}
	}
	if fr != nil && args == nil {
		for _, fv := range fn.FreeVars {
			if v, ok := fr.vals[fv]; ok {
				env.vars["&"+fv.Name()] = v
			}
		}
	}
	return env
}

var resultRe = regexp.MustCompile(`(^|[^.\w])result(\d*)\b`)

// splitImplies rewrites a ==> b (lowest precedence, right assoc) into implies(a, b).
func splitImplies(s string) string {
	depth := 0
	for i := 0; i+2 < len(s); i++ {
		switch s[i] {
		case '(', '[', '{':
			depth++
		case ')', ']', '}':
			depth--
		case '"':
			for i++; i < len(s) && s[i] != '"'; i++ {
			}
		}
		if depth == 0 && s[i] == '=' && s[i+1] == '=' && s[i+2] == '>' {
			return "implies(" + s[:i] + ", " + splitImplies(s[i+3:]) + ")"
		}
	}
	return s
}

// rewriteImplies turns every a ==> b (lowest precedence, right associative,
// also inside parentheses and call arguments) into implies(a, b).
func rewriteImplies(s string) string {
	if !strings.Contains(s, "==>") {
		return s
	}
	// first rewrite inside every top-level bracket group
	var sb strings.Builder
	depth := 0
	start := -1
	for i := 0; i < len(s); i++ {
		ch := s[i]
		switch ch {
		case '(', '[', '{':
			if depth == 0 {
				start = i
			}
			depth++
		case ')', ']', '}':
			depth--
			if depth == 0 && start >= 0 {
				inner := s[start+1 : i]
				parts := splitTop(inner, ',')
				for k := range parts {
					parts[k] = rewriteImplies(parts[k])
				}
				sb.WriteByte(s[start])
				sb.WriteString(strings.Join(parts, ","))
				sb.WriteByte(ch)
				start = -1
				continue
			}
		}
		if depth == 0 {
			sb.WriteByte(ch)
		}
	}
	return splitImplies(sb.String())
}

func splitTop(s string, sep byte) []string {
	var out []string
	depth := 0
	last := 0
	for i := 0; i < len(s); i++ {
		switch s[i] {
		case '(', '[', '{':
			depth++
		case ')', ']', '}':
			depth--
		}
		if depth == 0 && s[i] == sep {
			out = append(out, s[last:i])
			last = i + 1
		}
	}
	out = append(out, s[last:])
	return out
}

func (w *World) qualifierFor(fn *ssa.Function) (types.Qualifier, error) {
	var file *ast.File
	if syn := fn.Syntax(); syn != nil {
		p := w.Pkgs[fn.Pkg.Pkg.Path()]
		for _, f := range p.Syntax {
			if f.Pos() <= syn.Pos() && syn.Pos() < f.End() {
				file = f
			}
		}
	}
	names := map[string]string{}
	if file != nil {
		for _, im := range file.Imports {
			path := strings.Trim(im.Path.Value, `"`)
			if im.Name != nil {
				names[path] = im.Name.Name
			} else if p := w.Pkgs[path]; p != nil {
				names[path] = p.Name
			}
		}
	}
	return func(p *types.Package) string {
		if p == fn.Pkg.Pkg {
			return ""
		}
		if n, ok := names[p.Path()]; ok {
			return n
		}
		return "<notimported:" + p.Path() + ">"
	}, nil
}

// parseClause parses and type-checks a clause in the scope of the function.
func (w *World) parseClause(ct *Contract, cl *Clause) error {
	w.mu.Lock()
	defer w.mu.Unlock()
	if cl.Expr != nil {
		return nil
	}
	fn := ct.Fn
	text := rewriteImplies(cl.Text)
	q, _ := w.qualifierFor(fn)
	res := fn.Signature.Results()
	text = resultRe.ReplaceAllStringFunc(text, func(m string) string {
		sm := resultRe.FindStringSubmatch(m)
		idx := 0
		if sm[2] != "" {
			fmt.Sscanf(sm[2], "%d", &idx)
		}
		if idx >= res.Len() {
			return m
		}
		return fmt.Sprintf("%sres[%s](%d)", sm[1], types.TypeString(res.At(idx).Type(), q), idx)
	})
	x, err := parser.ParseExpr(text)
	if err != nil {
		return fmt.Errorf("%s:%d: %v in %q", cl.File, cl.Line, err, text)
	}
	pos := token.NoPos
	switch syn := fn.Syntax().(type) {
	case *ast.FuncDecl:
		pos = syn.Body.Rbrace
	case *ast.FuncLit:
		pos = syn.Body.Rbrace
	}
	if cl.Kind == "invariant" || cl.Kind == "decreases" {
		loops := astLoops(fn.Syntax())
		if cl.Loop < len(loops) {
			switch l := loops[cl.Loop].(type) {
			case *ast.ForStmt:
				pos = l.Body.Rbrace
			case *ast.RangeStmt:
				pos = l.Body.Rbrace
			}
		}
	}
	if !pos.IsValid() {
		return fmt.Errorf("%s:%d: function %s has no syntax to type-check the clause in", cl.File, cl.Line, fn)
	}
	info := &types.Info{Types: map[ast.Expr]types.TypeAndValue{}, Uses: map[*ast.Ident]types.Object{}, Selections: map[*ast.SelectorExpr]*types.Selection{}, Instances: map[*ast.Ident]types.Instance{}}
	err = types.CheckExpr(w.Fset, fn.Pkg.Pkg, pos, x, info)
	if err != nil && cl.Kind == "at" && strings.Contains(err.Error(), "undefined:") {
		// an at-call clause may name variables of an inner block: type-check it where the call is
		for _, p2 := range atCallPositions(fn.Syntax(), cl.Callee) {
			info = &types.Info{Types: map[ast.Expr]types.TypeAndValue{}, Uses: map[*ast.Ident]types.Object{}, Selections: map[*ast.SelectorExpr]*types.Selection{}, Instances: map[*ast.Ident]types.Instance{}}
			if err2 := types.CheckExpr(w.Fset, fn.Pkg.Pkg, p2, x, info); err2 == nil {
				err = nil
				break
			}
		}
	}
	if err != nil {
		return fmt.Errorf("%s:%d: contract clause does not type-check against %s: %v\n    %s", cl.File, cl.Line, fn, err, text)
	}
	cl.Expr = x
	cl.Info = info
	return nil
}

// atCallPositions: source positions (last first) of the calls an at-clause's callee pattern can
// refer to: calls of a function or method with that name, or map assignments for "mapupdate".
func atCallPositions(root ast.Node, callee string) []token.Pos {
	name := callee
	if k := strings.LastIndexAny(name, ".)"); k >= 0 {
		name = name[k+1:]
	}
	var out []token.Pos
	if root == nil {
		return nil
	}
	ast.Inspect(root, func(x ast.Node) bool {
		switch y := x.(type) {
		case *ast.AssignStmt:
			if callee == "mapupdate" {
				for _, l := range y.Lhs {
					if _, ok := l.(*ast.IndexExpr); ok {
						out = append(out, y.End())
					}
				}
			}
			if strings.HasPrefix(callee, "store:") {
				for _, l := range y.Lhs {
					if se, ok := l.(*ast.SelectorExpr); ok && se.Sel.Name == strings.TrimPrefix(callee, "store:") {
						out = append(out, y.Pos())
					}
				}
			}
		case *ast.ReturnStmt:
			if callee == "return" {
				out = append(out, y.Pos())
			}
		case *ast.CallExpr:
			switch f := y.Fun.(type) {
			case *ast.Ident:
				if f.Name == name {
					out = append(out, y.End())
				}
			case *ast.SelectorExpr:
				if f.Sel.Name == name {
					out = append(out, y.End())
				}
			}
		}
		return true
	})
	for i, j := 0, len(out)-1; i < j; i, j = i+1, j-1 {
		out[i], out[j] = out[j], out[i]
	}
	return out
}

func astLoops(n ast.Node) []ast.Node {
	var out []ast.Node
	if n == nil {
		return nil
	}
	root := n
	ast.Inspect(n, func(x ast.Node) bool {
		switch y := x.(type) {
		case *ast.ForStmt, *ast.RangeStmt:
			out = append(out, x)
		case *ast.FuncLit:
			if ast.Node(y) != root {
				return false
			}
		}
		return true
	})
	return out
}

func (env *Env) trClause(cl *Clause) *Term {
	if err := env.e.w.parseClause(env.ct, cl); err != nil {
		panic(contractError{err})
	}
	env.info = cl.Info
	v := env.tr(cl.Expr)
	if v.T == nil || v.T.S != BoolS {
		panic(contractError{fmt.Errorf("%s:%d: clause is not boolean", cl.File, cl.Line)})
	}
	return v.T
}

func (env *Env) trClauseVal(cl *Clause) *SVal {
	if err := env.e.w.parseClause(env.ct, cl); err != nil {
		panic(contractError{err})
	}
	env.info = cl.Info
	return env.tr(cl.Expr)
}

type contractError struct{ err error }

func (env *Env) fail(x ast.Node, format string, args ...interface{}) {
	panic(contractError{fmt.Errorf("contract for %s: %s: %s", env.ct.FuncName, env.e.exprText(x), fmt.Sprintf(format, args...))})
}

func (env *Env) state() *State {
	if env.inOld {
		return env.old
	}
	return env.st
}

func (env *Env) typeOf(x ast.Expr) types.Type {
	if tv, ok := env.info.Types[x]; ok {
		return tv.Type
	}
	return nil
}

func (env *Env) mkBool(t *Term) *SVal { return &SVal{K: KScalar, Typ: types.Typ[types.Bool], T: t} }

func (env *Env) constant(x ast.Expr) *SVal {
	tv, ok := env.info.Types[x]
	if !ok || tv.Value == nil {
		return nil
	}
	e := env.e
	c := e.c
	t := tv.Type
	if b, ok := t.(*types.Basic); ok && b.Info()&types.IsUntyped != 0 {
		t = types.Default(t)
	}
	switch kindOf(t) {
	case KScalar:
		s := scalarSort(t)
		switch s.K {
		case SBool:
			return &SVal{K: KScalar, Typ: t, T: c.Bool(constant.BoolVal(tv.Value))}
		case SReal:
			f, _ := constant.Float64Val(constant.ToFloat(tv.Value))
			return &SVal{K: KScalar, Typ: t, T: c.RealLit(realLit(f))}
		}
		var u uint64
		iv := constant.ToInt(tv.Value)
		if i, ok := constant.Int64Val(iv); ok {
			u = uint64(i)
		} else if uu, ok := constant.Uint64Val(iv); ok {
			u = uu
		}
		return &SVal{K: KScalar, Typ: t, T: c.BVLit(u, s.W)}
	case KString:
		return e.stringConst(constant.StringVal(tv.Value), t)
	}
	return nil
}

func (env *Env) tr(x ast.Expr) *SVal {
	e := env.e
	c := e.c
	if cv := env.constant(x); cv != nil {
		return cv
	}
	switch n := x.(type) {
	case *ast.ParenExpr:
		return env.tr(n.X)
	case *ast.Ident:
		return env.ident(n)
	case *ast.SelectorExpr:
		return env.selector(n)
	case *ast.StarExpr:
		p := env.tr(n.X)
		return e.load(env.state(), e.addrOf(p))
	case *ast.UnaryExpr:
		if n.Op == token.AND {
			a := env.addr(n.X)
			return e.ptrTo(a)
		}
		v := env.tr(n.X)
		switch n.Op {
		case token.NOT:
			return env.mkBool(c.Not(v.T))
		case token.SUB:
			if v.T.S.K == SReal {
				return &SVal{K: KScalar, Typ: env.typeOf(x), T: c.mk(&Term{Op: "-", Args: []*Term{v.T}, S: RealS})}
			}
			return &SVal{K: KScalar, Typ: env.typeOf(x), T: c.BVNeg(v.T)}
		case token.XOR:
			return &SVal{K: KScalar, Typ: env.typeOf(x), T: c.BVNot(v.T)}
		case token.ADD:
			return v
		}
		env.fail(x, "unsupported unary operator")
	case *ast.BinaryExpr:
		switch n.Op {
		case token.LAND:
			return env.mkBool(c.And(env.tr(n.X).T, env.tr(n.Y).T))
		case token.LOR:
			return env.mkBool(c.Or(env.tr(n.X).T, env.tr(n.Y).T))
		}
		a, b := env.tr(n.X), env.tr(n.Y)
		ta, tb := env.typeOf(n.X), env.typeOf(n.Y)
		tr := env.typeOf(x)
		// untyped constant operands take the other operand's type
		if cb, ok := ta.(*types.Basic); ok && cb.Info()&types.IsUntyped != 0 && n.Op != token.SHL && n.Op != token.SHR {
			a = env.retypeConst(a, tb)
			ta = tb
		}
		if cb, ok := tb.(*types.Basic); ok && cb.Info()&types.IsUntyped != 0 && n.Op != token.SHL && n.Op != token.SHR {
			b = env.retypeConst(b, ta)
			tb = ta
		}
		if a.T != nil && b.T != nil && a.T.S != b.T.S && n.Op != token.SHL && n.Op != token.SHR && a.T.S.K == SBV && b.T.S.K == SBV {
			// constants typed differently by CheckExpr: bring to the wider
			if a.T.IsLit() {
				a = &SVal{K: KScalar, Typ: tb, T: c.Resize(a.T, b.T.S.W, true)}
				ta = tb
			} else if b.T.IsLit() {
				b = &SVal{K: KScalar, Typ: ta, T: c.Resize(b.T, a.T.S.W, true)}
				tb = ta
			}
		}
		if (n.Op == token.SHL || n.Op == token.SHR) && b.T != nil && b.T.IsLit() {
			tb = types.Typ[types.Uint64]
			b = &SVal{K: KScalar, Typ: tb, T: c.BVLit(b.T.V, 64)}
		}
		saved := e.pure
		e.pure++
		r := e.binopVals(env.fr, n.Op, a, b, ta, tb, tr, "", token.NoPos)
		e.pure = saved
		return r
	case *ast.IndexExpr:
		// generic instantiation res[T] is handled in call
		xv := env.tr(n.X)
		iv := env.tr(n.Index)
		i := c.Resize(iv.T, 64, isSigned(env.typeOf(n.Index)))
		switch xv.K {
		case KSlice, KString:
			et := types.Type(types.Typ[types.Uint8])
			if sl, ok := xv.Typ.Underlying().(*types.Slice); ok {
				et = sl.Elem()
			}
			if xv.K == KString {
				smem := e.get(env.state(), "mem:str", Arr(RefS, Arr(BV64, BV8)))
				return &SVal{K: KScalar, Typ: types.Typ[types.Uint8], T: c.Select(c.Select(smem, xv.Base), c.BVBin("bvadd", xv.Off, i))}
			}
			a := e.elemAddr(xv.Base, c.BVBin("bvadd", xv.Off, i), et)
			return e.load(env.state(), a)
		case KArray:
			at := xv.Typ.Underlying().(*types.Array)
			if xv.T != nil {
				return &SVal{K: KScalar, Typ: at.Elem(), T: c.Select(xv.T, i)}
			}
			if i.IsLit() {
				return xv.Fields[i.V]
			}
		case KPtr:
			if pt, ok := xv.Typ.Underlying().(*types.Pointer); ok {
				if at, ok := pt.Elem().Underlying().(*types.Array); ok {
					return e.load(env.state(), e.elemAddr(e.aggRef(xv), i, at.Elem()))
				}
			}
		case KMap:
			// m[k]: the stored value, or the zero value if there is no entry (as in Go)
			if mt, ok := xv.Typ.Underlying().(*types.Map); ok {
				if cls, ks, ok := e.mapClasses(mt); ok && !(isAggregate(mt.Elem()) && kindOf(mt.Elem()) != KStruct) {
					k := e.mapKeyTerm(e.coerce(iv, mt.Key()), mt.Key())
					h := e.get(env.state(), cls+"#has", Arr(RefS, Arr(ks, BoolS)))
					saved := e.cur
					e.cur = env.state()
					val := e.mapLoadVal(cls, ks, xv.T, k, mt.Elem())
					e.cur = saved
					return e.iteVal(c.Select(c.Select(h, xv.T), k), val, e.zero(mt.Elem()))
				}
			}
		}
		env.fail(x, "unsupported index expression")
	case *ast.TypeAssertExpr:
		// x.(T): the value boxed in the interface (the clause states dyntype separately)
		v := env.tr(n.X)
		T := env.typeOf(n.Type)
		if tv, ok := env.info.Types[n.Type]; ok {
			T = tv.Type
		}
		if v.K != KIface || T == nil {
			env.fail(x, "type assertion on a non-interface value")
		}
		if _, isPtr := T.Underlying().(*types.Pointer); isPtr {
			return &SVal{K: KPtr, Typ: T, T: v.T}
		}
		if v.Inner != nil && types.Identical(v.Inner.Typ, T) {
			return v.Inner
		}
		return e.load(env.state(), e.boxAddr(v.T, T))
	case *ast.SliceExpr:
		xv := env.tr(n.X)
		var base, off, ln, cp *Term
		switch xv.K {
		case KSlice:
			base, off, ln, cp = xv.Base, xv.Off, xv.Len, xv.Cap
		case KString:
			base, off, ln, cp = xv.Base, xv.Off, xv.Len, xv.Len
		case KPtr:
			at := xv.Typ.Underlying().(*types.Pointer).Elem().Underlying().(*types.Array)
			base, off = e.aggRef(xv), c.BVLit(0, 64)
			ln = c.BVLit(uint64(at.Len()), 64)
			cp = ln
		case KArray:
			env.fail(x, "slicing an array value (take its address)")
		}
		lo, hi := c.BVLit(0, 64), ln
		if n.Low != nil {
			lo = c.Resize(env.tr(n.Low).T, 64, true)
		}
		if n.High != nil {
			hi = c.Resize(env.tr(n.High).T, 64, true)
		}
		r := &SVal{K: xv.K, Typ: env.typeOf(x), Base: base, Off: c.BVBin("bvadd", off, lo), Len: c.BVBin("bvsub", hi, lo)}
		if xv.K != KString {
			r.K = KSlice
			r.Cap = c.BVBin("bvsub", cp, lo)
		}
		return r
	case *ast.CallExpr:
		return env.call(n)
	case *ast.CompositeLit:
		t := env.typeOf(x)
		if st, ok := t.Underlying().(*types.Struct); ok {
			v := e.zero(t)
			for i, el := range n.Elts {
				if kv, ok := el.(*ast.KeyValueExpr); ok {
					name := kv.Key.(*ast.Ident).Name
					for j := 0; j < st.NumFields(); j++ {
						if st.Field(j).Name() == name {
							v.Fields[j] = e.coerce(env.tr(kv.Value), st.Field(j).Type())
						}
					}
				} else {
					v.Fields[i] = e.coerce(env.tr(el), st.Field(i).Type())
				}
			}
			return v
		}
		env.fail(x, "unsupported composite literal")
	}
	env.fail(x, "unsupported expression form %T", x)
	return nil
}

func (env *Env) retypeConst(v *SVal, t types.Type) *SVal {
	if v.T == nil || !v.T.IsLit() || t == nil || kindOf(t) != KScalar {
		return v
	}
	s := scalarSort(t)
	if s.K != SBV || v.T.S.K != SBV {
		return v
	}
	return &SVal{K: KScalar, Typ: t, T: env.e.c.Resize(v.T, s.W, true)}
}

func (env *Env) ident(n *ast.Ident) *SVal {
	e := env.e
	c := e.c
	switch n.Name {
	case "nil":
		return &SVal{K: KOpaque, Typ: types.Typ[types.UntypedNil], T: c.NilRef()}
	case "true":
		return env.mkBool(c.True())
	case "false":
		return env.mkBool(c.False())
	}
	if b, ok := env.bound[n.Name]; ok {
		return &SVal{K: KScalar, Typ: types.Typ[types.Int], T: b}
	}
	if n.Name == "iter" && env.loop != nil && env.fr != nil {
		// iter: the number of iterations of the annotated loop completed so far - independent of how
		// the loop is written (for-range, counted, stepped): (v - v_on_entry) / step for the loop's
		// induction variable v
		if v := env.iterCount(); v != nil {
			return v
		}
		env.fail(n, "iter: the loop has no recognisable induction variable (for-range index, or a variable compared in the loop condition and advanced by a constant)")
	}
	if n.Name == "rangeindex" && env.loop != nil && env.fr != nil {
		for _, p := range env.loop.phis {
			if p.Comment == "rangeindex" {
				return env.fr.vals[p]
			}
		}
	}
	if n.Name == "rangeindex" && env.loop == nil && env.fr != nil && env.atInstr != nil {
		// in an at-clause: the hidden index of the innermost for-range loop around the call
		var best *loopInfo
		for _, li := range env.fr.loops {
			if !li.body[env.atInstr.Block()] || (best != nil && len(li.body) >= len(best.body)) {
				continue
			}
			for _, p := range li.phis {
				if p.Comment == "rangeindex" {
					best = li
				}
			}
		}
		if best != nil {
			for _, p := range best.phis {
				if p.Comment == "rangeindex" {
					return env.fr.vals[p]
				}
			}
		}
		env.fail(n, "rangeindex: the call is not inside a for-range loop")
	}
	obj := env.info.Uses[n]
	if v, ok := env.vars[n.Name]; ok {
		if vv, isVar := obj.(*types.Var); !isVar || !vv.IsField() {
			return v
		}
	}
	if v, ok := env.vars["&"+n.Name]; ok {
		// captured variable of a closure: free var is a pointer to it
		return e.load(env.state(), e.addrOf(v))
	}
	switch o := obj.(type) {
	case *types.Var:
		if o.Parent() == o.Pkg().Scope() {
			// package-level variable
			sp := e.w.SSAPkgs[o.Pkg().Path()]
			if g, ok := sp.Members[o.Name()].(*ssa.Global); ok {
				return e.load(env.state(), e.globalAddr(g))
			}
		}
		if env.fr != nil {
			if v := env.local(o); v != nil {
				return v
			}
		}
		env.fail(n, "cannot resolve variable %s", n.Name)
	case *types.Func:
		sp := e.w.SSAPkgs[o.Pkg().Path()]
		if f := sp.Func(o.Name()); f != nil {
			return &SVal{K: KFunc, Typ: o.Type(), Fn: f, Tag: c.Int(0), T: c.NilRef()}
		}
	}
	env.fail(n, "cannot resolve identifier %s", n.Name)
	return nil
}

// local resolves a local variable of the function through SSA debug info.
func (env *Env) local(o *types.Var) *SVal {
	e := env.e
	fr := env.fr
	if env.loop != nil {
		for _, p := range env.loop.phis {
			if p.Comment == o.Name() {
				if v, ok := fr.vals[p]; ok {
					return v
				}
			}
		}
	}
	if env.atInstr != nil {
		if v := env.localAt(o, env.atInstr); v != nil {
			return v
		}
	}
	var cands []ssa.Value
	seen := map[ssa.Value]bool{}
	var addrVal ssa.Value
	for _, b := range fr.fn.Blocks {
		for _, in := range b.Instrs {
			d, ok := in.(*ssa.DebugRef)
			if !ok {
				continue
			}
			id, ok := d.Expr.(*ast.Ident)
			if !ok {
				continue
			}
			var dobj types.Object
			if p := e.w.Pkgs[fr.fn.Pkg.Pkg.Path()]; p != nil {
				dobj = p.TypesInfo.ObjectOf(id)
			}
			if dobj != o {
				continue
			}
			if d.IsAddr {
				addrVal = d.X
				continue
			}
			if !seen[d.X] {
				seen[d.X] = true
				cands = append(cands, d.X)
			}
		}
	}
	if addrVal != nil {
		if pv, ok := fr.vals[addrVal]; ok {
			return e.load(env.state(), e.addrOf(pv))
		}
	}
	// prefer values already computed and, in a loop context, defined outside the loop
	var avail []ssa.Value
	for _, v := range cands {
		if _, ok := fr.vals[v]; !ok {
			if _, isConst := v.(*ssa.Const); !isConst {
				continue
			}
		}
		if env.loop != nil && inLoop(env.loop, v) {
			continue
		}
		avail = append(avail, v)
	}
	if len(avail) == 1 {
		return e.val(fr, avail[0])
	}
	if len(avail) > 1 {
		// the variable has several SSA versions: take the phi that merges them if unique
		var phis []ssa.Value
		for _, v := range avail {
			if _, ok := v.(*ssa.Phi); ok {
				phis = append(phis, v)
			}
		}
		if len(phis) == 1 {
			return e.val(fr, phis[0])
		}
		// at function exit: the last available definition in block order
		return e.val(fr, avail[len(avail)-1])
	}
	return nil
}

// localAt: the value of local variable o just before instruction at: the nearest reference to o
// (go/ssa records every definition and use) in the same block before at, else in the closest
// dominating block.
func (env *Env) localAt(o *types.Var, at ssa.Instruction) *SVal {
	e := env.e
	fr := env.fr
	ab := at.Block()
	if ab == nil {
		return nil
	}
	atIdx := -1
	for i, in := range ab.Instrs {
		if in == at {
			atIdx = i
		}
	}
	depth := func(b *ssa.BasicBlock) int {
		n := 0
		for x := b; x != nil; x = x.Idom() {
			n++
		}
		return n
	}
	var best *ssa.DebugRef
	bestDepth, bestIdx := -1, -1
	for _, b := range fr.fn.Blocks {
		if b != ab && !b.Dominates(ab) {
			continue
		}
		d := depth(b)
		for i, in := range b.Instrs {
			if b == ab && i >= atIdx {
				break
			}
			dr, ok := in.(*ssa.DebugRef)
			if !ok {
				continue
			}
			id, ok := dr.Expr.(*ast.Ident)
			if !ok {
				continue
			}
			var dobj types.Object
			if p := e.w.Pkgs[fr.fn.Pkg.Pkg.Path()]; p != nil {
				dobj = p.TypesInfo.ObjectOf(id)
			}
			if dobj != o {
				continue
			}
			if d > bestDepth || (d == bestDepth && i > bestIdx) {
				best, bestDepth, bestIdx = dr, d, i
			}
		}
	}
	if best == nil {
		return nil
	}
	if k, isConst := best.X.(*ssa.Const); isConst && k.IsNil() && best.Expr.Pos() == o.Pos() {
		// go/ssa records "x is nil" at the declaration x := T{...} of a map or slice built by a composite
		// literal, before the value is made; the value follows immediately (the DebugRef of the literal)
		b := best.Block()
		for i, in := range b.Instrs {
			if in != ssa.Instruction(best) {
				continue
			}
			for _, nx := range b.Instrs[i+1:] {
				if b == ab && atIdx >= 0 {
					if idx := indexOfInstr(b, nx); idx >= atIdx {
						break
					}
				}
				if d2, ok := nx.(*ssa.DebugRef); ok {
					if cl, isLit := d2.Expr.(*ast.CompositeLit); isLit && cl.Pos() > best.Expr.Pos() && types.Identical(d2.X.Type(), o.Type()) {
						if _, have := fr.vals[d2.X]; have {
							return e.val(fr, d2.X)
						}
					}
					break
				}
			}
		}
	}
	if _, ok := fr.vals[best.X]; !ok {
		if _, isConst := best.X.(*ssa.Const); !isConst {
			return nil
		}
	}
	v := e.val(fr, best.X)
	if best.IsAddr {
		return e.load(env.state(), e.addrOf(v))
	}
	return v
}

// fieldPath walks a selection index path from a base value.
func (env *Env) walkPath(v *SVal, t types.Type, path []int) *SVal {
	e := env.e
	for _, i := range path {
		if pt, ok := t.Underlying().(*types.Pointer); ok {
			st := pt.Elem()
			a := e.fieldAddr(e.aggRef(v), st, i)
			ft := st.Underlying().(*types.Struct).Field(i).Type()
			if isAggregate(ft) {
				// keep as pointer to the aggregate to continue walking
				v = e.ptrTo(a)
				t = types.NewPointer(ft)
			} else {
				v = e.load(env.state(), a)
				t = ft
			}
			continue
		}
		st := t.Underlying().(*types.Struct)
		v = v.Fields[i]
		t = st.Field(i).Type()
	}
	// if we ended on a pointer-to-aggregate synthesised above, load it
	return env.deaggregate(v, t)
}

func (env *Env) deaggregate(v *SVal, t types.Type) *SVal {
	return v
}

func (env *Env) selector(n *ast.SelectorExpr) *SVal {
	e := env.e
	sel, ok := env.info.Selections[n]
	if !ok {
		// qualified identifier pkg.Name
		obj := env.info.Uses[n.Sel]
		switch o := obj.(type) {
		case *types.Var:
			sp := e.w.SSAPkgs[o.Pkg().Path()]
			if g, ok := sp.Members[o.Name()].(*ssa.Global); ok {
				return e.load(env.state(), e.globalAddr(g))
			}
		case *types.Func:
			sp := e.w.SSAPkgs[o.Pkg().Path()]
			if f := sp.Func(o.Name()); f != nil {
				return &SVal{K: KFunc, Typ: o.Type(), Fn: f, Tag: e.c.Int(0), T: e.c.NilRef()}
			}
		}
		env.fail(n, "cannot resolve qualified identifier")
	}
	if sel.Kind() != types.FieldVal {
		env.fail(n, "method value outside a call")
	}
	base := env.tr(n.X)
	t := env.typeOf(n.X)
	v := env.walkPath(base, t, sel.Index())
	// walkPath leaves pointer-to-aggregate for aggregate-typed final fields: load the value
	ft := sel.Type()
	if isAggregate(ft) && v.K == KPtr {
		if _, isPtr := ft.Underlying().(*types.Pointer); !isPtr {
			return e.load(env.state(), e.addrOf(v))
		}
	}
	return v
}

// addr translates an lvalue expression to an address.
func (env *Env) addr(x ast.Expr) *Addr {
	e := env.e
	c := e.c
	switch n := x.(type) {
	case *ast.ParenExpr:
		return env.addr(n.X)
	case *ast.StarExpr:
		return e.addrOf(env.tr(n.X))
	case *ast.Ident:
		if v, ok := env.vars["&"+n.Name]; ok {
			return e.addrOf(v)
		}
		if o, ok := env.info.Uses[n].(*types.Var); ok && o.Pkg() != nil && o.Parent() == o.Pkg().Scope() {
			sp := e.w.SSAPkgs[o.Pkg().Path()]
			if g, ok := sp.Members[o.Name()].(*ssa.Global); ok {
				return e.globalAddr(g)
			}
		}
		if o, ok := env.info.Uses[n].(*types.Var); ok && env.fr != nil {
			// a local variable that lives in memory (its address is taken): the cell go/ssa allocated for it
			for _, b := range env.fr.fn.Blocks {
				for _, in := range b.Instrs {
					d, ok := in.(*ssa.DebugRef)
					if !ok || !d.IsAddr {
						continue
					}
					id, ok := d.Expr.(*ast.Ident)
					if !ok {
						continue
					}
					if p := e.w.Pkgs[env.fr.fn.Pkg.Pkg.Path()]; p != nil && p.TypesInfo.ObjectOf(id) == o {
						if v, ok := env.fr.vals[d.X]; ok {
							return e.addrOf(v)
						}
					}
				}
			}
		}
	case *ast.SelectorExpr:
		sel, ok := env.info.Selections[n]
		if !ok || sel.Kind() != types.FieldVal {
			break
		}
		path := sel.Index()
		t := env.typeOf(n.X)
		var cur *Addr
		if _, isPtr := t.Underlying().(*types.Pointer); isPtr {
			p := env.tr(n.X)
			pt := t.Underlying().(*types.Pointer).Elem()
			cur = &Addr{Typ: pt, Ref: e.aggRef(p)}
		} else {
			cur = env.addr(n.X)
		}
		for _, i := range path {
			if pt, ok := cur.Typ.Underlying().(*types.Pointer); ok {
				p := e.load(env.state(), cur)
				cur = &Addr{Typ: pt.Elem(), Ref: e.aggRef(p)}
			}
			cur = e.fieldAddr(cur.Ref, cur.Typ, i)
		}
		return cur
	case *ast.IndexExpr:
		xv := env.tr(n.X)
		i := c.Resize(env.tr(n.Index).T, 64, true)
		switch xv.K {
		case KSlice:
			return e.elemAddr(xv.Base, c.BVBin("bvadd", xv.Off, i), xv.Typ.Underlying().(*types.Slice).Elem())
		case KPtr:
			at := xv.Typ.Underlying().(*types.Pointer).Elem().Underlying().(*types.Array)
			return e.elemAddr(e.aggRef(xv), i, at.Elem())
		}
	}
	env.fail(x, "not an addressable expression in the contract language")
	return nil
}

func (env *Env) call(n *ast.CallExpr) *SVal {
	e := env.e
	c := e.c
	// conversion?
	if tv, ok := env.info.Types[n.Fun]; ok && tv.IsType() {
		v := env.tr(n.Args[0])
		return env.convert(v, env.typeOf(n.Args[0]), tv.Type)
	}
	fun := n.Fun
	if ix, ok := fun.(*ast.IndexExpr); ok {
		if id, ok := ix.X.(*ast.Ident); ok && id.Name == "arg" {
			k := 0
			if cv := env.constant(n.Args[0]); cv != nil {
				k = int(cv.T.V)
			}
			if k >= len(env.callArgs) || env.callArgs[k] == nil {
				env.fail(n, "arg[T](k) used outside an at-call clause or out of range")
			}
			return env.callArgs[k]
		}
		if id, ok := ix.X.(*ast.Ident); ok && id.Name == "captured" {
			// captured[T](): the one variable of type T that the closure under contract captures - a name-
			// independent way to refer to it (a rename of the variable does not touch the contract)
			T := env.typeOf(ix.Index)
			if tv, ok := env.info.Types[ix.Index]; ok {
				T = tv.Type
			}
			var found *SVal
			n := 0
			if env.ct != nil && env.ct.Fn != nil {
				for _, fv := range env.ct.Fn.FreeVars {
					pt, ok := fv.Type().(*types.Pointer)
					if !ok || T == nil || !types.Identical(pt.Elem(), T) {
						continue
					}
					if v, ok := env.vars["&"+fv.Name()]; ok {
						found = v
						n++
					}
				}
			}
			if n != 1 {
				env.fail(ix, "captured[T](): the closure captures %d variables of that type, need exactly one", n)
			}
			return e.load(env.state(), e.addrOf(found))
		}
		if id, ok := ix.X.(*ast.Ident); ok && id.Name == "res" {
			k := 0
			if cv := env.constant(n.Args[0]); cv != nil {
				k = int(cv.T.V)
			}
			if env.result == nil {
				env.fail(n, "result used where no result is available")
			}
			if env.result.K == KTuple {
				return env.result.Fields[k]
			}
			return env.result
		}
		fun = ix.X
	}
	if id, ok := fun.(*ast.Ident); ok {
		switch id.Name {
		case "old":
			saved := env.inOld
			env.inOld = true
			v := env.tr(n.Args[0])
			env.inOld = saved
			return v
		case "now":
			// inside old(...): evaluate the argument in the current (post) state
			saved := env.inOld
			env.inOld = false
			v := env.tr(n.Args[0])
			env.inOld = saved
			return v
		case "implies":
			return env.mkBool(c.Implies(env.tr(n.Args[0]).T, env.tr(n.Args[1]).T))
		case "ite":
			cond := env.tr(n.Args[0]).T
			a, b := env.tr(n.Args[1]), env.tr(n.Args[2])
			t := env.typeOf(n)
			a, b = env.retypeConst(a, t), env.retypeConst(b, t)
			return e.iteVal(cond, e.coerce(a, t), e.coerce(b, t))
		case "forall", "exists":
			vn := n.Args[0].(*ast.Ident).Name
			bv := c.Bound(vn, BV64)
			lo := c.Resize(env.tr(n.Args[1]).T, 64, true)
			hi := c.Resize(env.tr(n.Args[2]).T, 64, true)
			savedB, had := env.bound[vn]
			env.bound[vn] = bv
			body := env.tr(n.Args[3]).T
			if had {
				env.bound[vn] = savedB
			} else {
				delete(env.bound, vn)
			}
			rng := c.And(c.BVCmp("bvsle", lo, bv), c.BVCmp("bvslt", bv, hi))
			// small constant ranges are expanded
			if lo.IsLit() && hi.IsLit() && hi.SInt()-lo.SInt() <= 32 {
				var parts []*Term
				for k := lo.SInt(); k < hi.SInt(); k++ {
					parts = append(parts, c.Subst(body, map[*Term]*Term{bv: c.BVLit(uint64(k), 64)}))
				}
				if id.Name == "forall" {
					return env.mkBool(c.And(parts...))
				}
				return env.mkBool(c.Or(parts...))
			}
			if id.Name == "forall" {
				if pat := findSelectAt(body, bv); pat != nil {
					return env.mkBool(c.ForallPat([]*Term{bv}, c.Implies(rng, body), pat))
				}
				return env.mkBool(c.Forall([]*Term{bv}, c.Implies(rng, body)))
			}
			return env.mkBool(c.Exists([]*Term{bv}, c.And(rng, body)))
		case "atentry":
			// atentry(x), in a loop invariant or variant: the value x had when the loop was entered
			v := env.tr(n.Args[0])
			if env.loop == nil || env.loop.initMap == nil || v.T == nil {
				env.fail(n, "atentry() is only available in loop invariants on scalar values")
			}
			return &SVal{K: v.K, Typ: v.Typ, T: c.Subst(v.T, env.loop.initMap)}
		case "cur":
			// cur(x): the current value of the local variable or (reassigned) parameter x
			if id, ok := n.Args[0].(*ast.Ident); ok && env.fr != nil {
				if o, ok := env.info.Uses[id].(*types.Var); ok {
					if v := env.local(o); v != nil {
						return v
					}
				}
			}
			return env.tr(n.Args[0])
		case "isnil":
			v := env.tr(n.Args[0])
			return env.mkBool(env.isNil(v))
		case "len":
			v := env.tr(n.Args[0])
			switch v.K {
			case KSlice, KString:
				return &SVal{K: KScalar, Typ: types.Typ[types.Int], T: v.Len}
			case KArray:
				return &SVal{K: KScalar, Typ: types.Typ[types.Int], T: c.BVLit(uint64(v.Typ.Underlying().(*types.Array).Len()), 64)}
			}
			env.fail(n, "len of unsupported value")
		case "cap":
			v := env.tr(n.Args[0])
			if v.K == KSlice {
				return &SVal{K: KScalar, Typ: types.Typ[types.Int], T: v.Cap}
			}
			env.fail(n, "cap of unsupported value")
		case "sameBytes":
			s, t := env.tr(n.Args[0]), env.tr(n.Args[1])
			lo := c.Resize(env.tr(n.Args[2]).T, 64, true)
			cnt := c.Resize(env.tr(n.Args[3]).T, 64, true)
			return env.mkBool(env.sameBytes(s, t, lo, cnt))
		case "aliases":
			s, t := env.tr(n.Args[0]), env.tr(n.Args[1])
			lo := c.Resize(env.tr(n.Args[2]).T, 64, true)
			hi := c.Resize(env.tr(n.Args[3]).T, 64, true)
			ok := c.And(c.BVCmp("bvsle", c.BVLit(0, 64), lo), c.BVCmp("bvsle", lo, hi), c.BVCmp("bvsle", hi, t.Len),
				c.Eq(s.Len, c.BVBin("bvsub", hi, lo)),
				c.Or(c.Eq(hi, lo), c.And(c.Eq(s.Base, t.Base), c.Eq(s.Off, c.BVBin("bvadd", t.Off, lo)))))
			return env.mkBool(ok)
		case "dyntype":
			v := env.tr(n.Args[0])
			name := ""
			if cv, ok := env.info.Types[n.Args[1]]; ok && cv.Value != nil {
				name = constant.StringVal(cv.Value)
			}
			t := e.w.lookupTypeByName(name)
			if t == nil {
				env.fail(n, "unknown type name %q", name)
			}
			return env.mkBool(c.Eq(v.Tag, c.Int(int64(e.w.typeTag(t)))))
		}
		if nat, ok := nativeSpec[id.Name]; ok {
			var args []*SVal
			for _, a := range n.Args {
				args = append(args, env.tr(a))
			}
			return nat(env, n, args)
		}
	}
	// method or function call: inline as pure
	var callee *ssa.Function
	var args []*SVal
	switch f := fun.(type) {
	case *ast.Ident:
		if o, ok := env.info.Uses[f].(*types.Func); ok {
			callee = e.w.SSAPkgs[o.Pkg().Path()].Func(o.Name())
		}
	case *ast.SelectorExpr:
		if sel, ok := env.info.Selections[f]; ok && sel.Kind() == types.MethodVal {
			recv := env.tr(f.X)
			rt := env.typeOf(f.X)
			path := sel.Index()
			recv = env.walkPathAddr(recv, rt, path[:len(path)-1])
			m := sel.Obj().(*types.Func)
			callee = e.w.Prog.FuncValue(m)
			if callee != nil {
				wantPtr := false
				if r := callee.Signature.Recv(); r != nil {
					_, wantPtr = r.Type().Underlying().(*types.Pointer)
				}
				if wantPtr && recv.K != KPtr {
					// addressable operand: &x.f
					recv = e.ptrTo(env.addr(f.X))
				}
				if !wantPtr && recv.K == KPtr {
					recv = e.load(env.state(), e.addrOf(recv))
				}
			} else if recv.K == KIface {
				if impls := e.w.implementers(rt, m); len(impls) > 0 && len(impls) <= 6 {
					// closed-world dispatch, as for the code's own calls
					var res *SVal
					for i := len(impls) - 1; i >= 0; i-- {
						T := impls[i]
						cal := e.w.Prog.LookupMethod(T, m.Pkg(), m.Name())
						if cal == nil {
							continue
						}
						var rv *SVal
						if _, isPtr := T.Underlying().(*types.Pointer); isPtr {
							rv = &SVal{K: KPtr, Typ: T, T: recv.T}
						} else {
							rv = e.load(env.state(), e.boxAddr(recv.T, T))
						}
						cargs := []*SVal{rv}
						for i, a := range n.Args {
							av := env.tr(a)
							if i < cal.Signature.Params().Len() {
								av = e.coerce(env.retypeConst(av, cal.Signature.Params().At(i).Type()), cal.Signature.Params().At(i).Type())
							}
							cargs = append(cargs, av)
						}
						r := e.callPure(cal, cargs, env.state())
						if res == nil {
							res = r
						} else {
							res = e.iteVal(c.Eq(recv.Tag, c.Int(int64(e.w.typeTag(T)))), r, res)
						}
					}
					if res != nil {
						return res
					}
				}
				if len(n.Args) == 0 && e.w.isModuleInterface(rt) {
					// same uninterpreted accessor the code's own calls are modelled with
					return e.pureGetter(ifaceMethodKey(rt, m), recv, m.Type().(*types.Signature).Results())
				}
				env.fail(n, "interface method call in a contract")
			}
			args = append(args, recv)
		} else if o, ok := env.info.Uses[f.Sel].(*types.Func); ok {
			callee = e.w.SSAPkgs[o.Pkg().Path()].Func(o.Name())
		}
	}
	if callee == nil {
		env.fail(n, "cannot resolve callee")
	}
	sig := callee.Signature
	for i, a := range n.Args {
		av := env.tr(a)
		pi := i
		if pi < sig.Params().Len() {
			pt := sig.Params().At(pi).Type()
			av = env.retypeConst(av, pt)
			av = e.coerce(av, pt)
		}
		args = append(args, av)
	}
	if nat, ok := nativeSpec[callee.Name()]; ok && strings.HasPrefix(callee.Pkg.Pkg.Path(), modPath) && e.w.isContractFileFunc(callee) {
		return nat(env, n, args)
	}
	if m, ok := nativeModels[callee.String()]; ok && pureNative[callee.String()] {
		saved := e.cur
		e.cur = env.state()
		r := m(e, env.fr, args, nil, callee.Signature.Results())
		e.cur = saved
		if tt, ok := callee.Signature.Results().Underlying().(*types.Tuple); ok && tt.Len() == 1 && r.K == KTuple {
			return r.Fields[0]
		}
		return r
	}
	return e.callPure(callee, args, env.state())
}

// walkPathAddr follows embedded-field hops to the method receiver.
func (env *Env) walkPathAddr(v *SVal, t types.Type, path []int) *SVal {
	e := env.e
	for _, i := range path {
		if pt, ok := t.Underlying().(*types.Pointer); ok {
			st := pt.Elem()
			a := e.fieldAddr(e.aggRef(v), st, i)
			ft := st.Underlying().(*types.Struct).Field(i).Type()
			if isAggregate(ft) {
				v = e.ptrTo(a)
				t = types.NewPointer(ft)
			} else {
				v = e.load(env.state(), a)
				t = ft
			}
			continue
		}
		st := t.Underlying().(*types.Struct)
		v = v.Fields[i]
		t = st.Field(i).Type()
	}
	return v
}

func (env *Env) isNil(v *SVal) *Term {
	c := env.e.c
	switch v.K {
	case KIface, KFunc:
		return c.Eq(v.Tag, c.Int(0))
	case KSlice:
		return c.Eq(v.Base, c.NilRef())
	case KPtr, KMap, KOpaque:
		return c.Eq(v.T, c.NilRef())
	}
	return c.False()
}

func (env *Env) sameBytes(s, t *SVal, lo, cnt *Term) *Term {
	e := env.e
	c := e.c
	sa := c.Select(e.get(env.state(), byteClass(s), Arr(RefS, Arr(BV64, BV8))), s.Base)
	ta := c.Select(e.get(env.state(), byteClass(t), Arr(RefS, Arr(BV64, BV8))), t.Base)
	hdr := c.And(c.Eq(s.Len, cnt), c.BVCmp("bvsle", c.BVLit(0, 64), lo), c.BVCmp("bvsle", c.BVBin("bvadd", lo, cnt), t.Len))
	if cnt.IsLit() && cnt.V <= 32 {
		var parts []*Term
		for k := uint64(0); k < cnt.V; k++ {
			kk := c.BVLit(k, 64)
			parts = append(parts, c.Eq(c.Select(sa, c.BVBin("bvadd", s.Off, kk)), c.Select(ta, c.BVBin("bvadd", c.BVBin("bvadd", t.Off, lo), kk))))
		}
		return c.And(append([]*Term{hdr}, parts...)...)
	}
	k := c.Bound("k", BV64)
	body := c.Implies(c.BVCmp("bvult", k, cnt), c.Eq(c.Select(sa, c.BVBin("bvadd", s.Off, k)), c.Select(ta, c.BVBin("bvadd", c.BVBin("bvadd", t.Off, lo), k))))
	return c.And(hdr, c.Forall([]*Term{k}, body))
}

func (env *Env) convert(v *SVal, from, to types.Type) *SVal {
	e := env.e
	c := e.c
	if b, ok := from.(*types.Basic); ok && b.Info()&types.IsUntyped != 0 {
		from = types.Default(from)
	}
	if v.K == KOpaque {
		return e.zero(to)
	}
	if kindOf(from) == KScalar && kindOf(to) == KScalar {
		fs, ts := scalarSort(from), scalarSort(to)
		switch {
		case fs.K == SBV && ts.K == SBV:
			return &SVal{K: KScalar, Typ: to, T: c.Resize(v.T, ts.W, isSigned(from))}
		case fs.K == SBV && ts.K == SReal:
			return &SVal{K: KScalar, Typ: to, T: e.bvToReal(v.T, isSigned(from))}
		case fs.K == SReal && ts.K == SBV:
			return &SVal{K: KScalar, Typ: to, T: e.realToBV(v.T, ts.W, isSigned(to))}
		default:
			return &SVal{K: KScalar, Typ: to, T: v.T}
		}
	}
	if kindOf(from) == kindOf(to) {
		return e.changeType(v, to)
	}
	if (kindOf(from) == KString && kindOf(to) == KSlice) || (kindOf(from) == KSlice && kindOf(to) == KString) {
		env.fail(nil, "string/[]byte conversion in a contract: index the value directly instead")
	}
	env.fail(nil, "unsupported conversion %s -> %s", from, to)
	return nil
}

func (w *World) isContractFileFunc(f *ssa.Function) bool {
	if f.Syntax() == nil {
		return false
	}
	return strings.HasSuffix(w.Fset.Position(f.Syntax().Pos()).Filename, "_verif.go")
}

func (w *World) lookupTypeByName(name string) types.Type {
	// "pkgpath.Name" or "*pkgpath.Name"
	ptr := strings.HasPrefix(name, "*")
	name = strings.TrimPrefix(name, "*")
	k := strings.LastIndex(name, ".")
	if k < 0 {
		return nil
	}
	p := w.Pkgs[name[:k]]
	if p == nil {
		return nil
	}
	o := p.Types.Scope().Lookup(name[k+1:])
	if o == nil {
		return nil
	}
	if ptr {
		return types.NewPointer(o.Type())
	}
	return o.Type()
}

// native models that are pure functions of their arguments and may be used from contracts
var pureNative = map[string]bool{
	"(time.Time).Unix": true, "(time.Time).Before": true, "(time.Time).After": true, "(time.Time).Equal": true,
	"(time.Duration).Seconds": true, "(time.Duration).Minutes": true, "(time.Duration).Hours": true,
	"math.Floor": true, "math.Ceil": true,
}

// findSelectAt finds a subterm select(A, v) whose index is exactly the bound
// variable v (A not mentioning v): a good E-matching trigger.
func findSelectAt(t, v *Term) *Term {
	seen := map[*Term]bool{}
	var found *Term
	var rec func(x *Term)
	rec = func(x *Term) {
		if found != nil || seen[x] || !x.hb {
			return
		}
		seen[x] = true
		if x.Op == "select" && x.Args[1] == v && !mentions(x.Args[0], v) && patternSafe(x.Args[0]) {
			found = x
			return
		}
		for _, a := range x.Args {
			rec(a)
		}
	}
	rec(t)
	return found
}

// patternSafe: solvers accept function applications and variables in patterns,
// but no if-then-else, connectives or predicates.
func patternSafe(t *Term) bool {
	if t.S == BoolS {
		return false
	}
	switch t.Op {
	case "ite", "forall", "exists", "store", "constarr":
		return false
	}
	for _, a := range t.Args {
		if !patternSafe(a) {
			return false
		}
	}
	return true
}

func indexOfInstr(b *ssa.BasicBlock, in ssa.Instruction) int {
	for i, x := range b.Instrs {
		if x == in {
			return i
		}
	}
	return -1
}

// iterCount: see the identifier "iter".
func (env *Env) iterCount() *SVal {
	e := env.e
	c := e.c
	li := env.loop
	var ind *ssa.Phi
	step := int64(0)
	for _, p := range li.phis {
		if p.Comment == "rangeindex" {
			ind, step = p, 1
		}
	}
	if ind == nil {
		// the variable tested by the loop condition
		var cond ssa.Value
		if len(li.header.Instrs) > 0 {
			if ifi, ok := li.header.Instrs[len(li.header.Instrs)-1].(*ssa.If); ok {
				cond = ifi.Cond
			}
		}
		bo, ok := cond.(*ssa.BinOp)
		if !ok {
			return nil
		}
		for _, op := range []ssa.Value{bo.X, bo.Y} {
			if p, ok := op.(*ssa.Phi); ok && p.Block() == li.header {
				ind = p
			}
		}
		if ind == nil {
			return nil
		}
		for k, ed := range ind.Edges {
			if !li.body[ind.Block().Preds[k]] {
				continue
			}
			upd, ok := ed.(*ssa.BinOp)
			if !ok || upd.Op != token.ADD {
				return nil
			}
			var k2 *ssa.Const
			if upd.X == ssa.Value(ind) {
				k2, _ = upd.Y.(*ssa.Const)
			} else if upd.Y == ssa.Value(ind) {
				k2, _ = upd.X.(*ssa.Const)
			}
			if k2 == nil || k2.Value == nil {
				return nil
			}
			st := k2.Int64()
			if st <= 0 || (step != 0 && st != step) {
				return nil
			}
			step = st
		}
		if step == 0 {
			return nil
		}
	}
	hv, ok := env.fr.vals[ind]
	if !ok || hv.T == nil {
		return nil
	}
	entry, ok := li.initMap[hv.T]
	if !ok {
		return nil
	}
	w := hv.T.S.W
	d := c.BVBin("bvsub", hv.T, entry)
	if step != 1 {
		d = c.BVBin("bvsdiv", d, c.BVLit(uint64(step), w))
	}
	return &SVal{K: KScalar, Typ: types.Typ[types.Int], T: c.Resize(d, 64, true)}
}
