package main

// Loop cutting: invariants, candidate (Houdini) invariants, variants, havoc.

import (
	"fmt"
	"go/token"
	"go/types"
	"sort"
	"strconv"
	"strings"

	"golang.org/x/tools/go/ssa"
)

type loopSyms struct {
	syms    []*Term          // fresh header symbols
	initMap map[*Term]*Term  // header symbol -> value on loop entry
	phiComp map[*Term]phiRef // header symbol -> (phi, component index)
	clsFull map[*Term]string // header symbol -> class (fully havocked)
	clsAt   map[*Term]clsIdx // header symbol -> (class, idx) refined havoc
}

type phiRef struct {
	phi *ssa.Phi
	k   int
}
type clsIdx struct {
	class string
	idx   *Term
}

func svalComps(v *SVal) []*Term {
	switch v.K {
	case KStruct, KTuple:
		var out []*Term
		for _, f := range v.Fields {
			out = append(out, svalComps(f)...)
		}
		return out
	case KArray:
		if v.T != nil {
			return []*Term{v.T}
		}
		var out []*Term
		for _, f := range v.Fields {
			out = append(out, svalComps(f)...)
		}
		return out
	}
	return v.comps()
}

func freshSuffix(name string) int {
	k := strings.LastIndex(name, "!")
	if k < 0 {
		return -1
	}
	s := name[k+1:]
	if strings.HasPrefix(s, "b") {
		s = s[1:]
	}
	n, err := strconv.Atoi(s)
	if err != nil {
		return -1
	}
	return n
}

// mentionsFreshAfter reports whether t contains a fresh symbol numbered > n.
func mentionsFreshAfter(t *Term, n int, memo map[*Term]bool) bool {
	if r, ok := memo[t]; ok {
		return r
	}
	r := false
	if t.Op == "sym" {
		if k := freshSuffix(t.Name); k > n {
			r = true
		}
	}
	for _, a := range t.Args {
		if r {
			break
		}
		if mentionsFreshAfter(a, n, memo) {
			r = true
		}
	}
	memo[t] = r
	return r
}

// storeIdxs collects the outer store indices between t and old; ok=false if t
// is not a store/ite tree over old.
func storeIdxs(t, old *Term, acc map[*Term]bool, depth int) bool {
	if t == old {
		return true
	}
	// a store at an index already written replaces (collapses) the old one
	for o := old; o.Op == "store" && acc[o.Args[1]]; {
		o = o.Args[0]
		if t == o {
			return true
		}
	}
	if depth > 200 {
		return false
	}
	switch t.Op {
	case "store":
		acc[t.Args[1]] = true
		return storeIdxs(t.Args[0], old, acc, depth+1)
	case "ite":
		return storeIdxs(t.Args[1], old, acc, depth+1) && storeIdxs(t.Args[2], old, acc, depth+1)
	}
	return false
}

func (e *Encoder) loopHeader(fr *frame, li *loopInfo, reach *Term, stIn *State) {
	c := e.c
	b := li.header
	// entry values of the phis
	entry := map[*ssa.Phi]*SVal{}
	for _, p := range li.phis {
		var v *SVal
		first := true
		for k := len(b.Preds) - 1; k >= 0; k-- {
			pr := b.Preds[k]
			ec, ok := fr.edge[[2]int{pr.Index, b.Index}]
			if !ok || fr.back[[2]int{pr.Index, b.Index}] {
				continue
			}
			pv := e.coerce(e.val(fr, p.Edges[k]), p.Type())
			if first {
				v = pv
				first = false
			} else {
				v = e.iteVal(ec, pv, v)
			}
		}
		if v == nil {
			v = e.zero(p.Type())
		}
		entry[p] = v
	}
	// ---- dry run to find the modified location classes
	freshMark := c.fresh
	mod := e.dryRun(fr, li, stIn, entry)
	if !mod.all && len(mod.classes) > 0 {
		// second pass with the modified classes havocked, so that store indices that
		// depend on loop-carried heap state are recognised as such
		st2 := stIn.clone()
		for _, cl := range sortedStrKeys(mod.classes) {
			old := e.get(stIn, cl, e.sorts[cl])
			st2.m[cl] = c.Fresh("dry."+cl, old.S)
		}
		mod2 := e.dryRun(fr, li, st2, entry)
		if mod2.all {
			mod.all = true
		}
		for cl, idxs := range mod2.classes {
			if prev, seen := mod.classes[cl]; !seen {
				mod.classes[cl] = idxs
			} else if prev == nil || idxs == nil {
				mod.classes[cl] = nil
			} else {
				for k := range idxs {
					prev[k] = true
				}
			}
		}
		for cl := range mod.classes {
			if _, seen := mod2.classes[cl]; !seen {
				// modified in pass 1 only (cannot normally happen): be conservative
				mod.classes[cl] = nil
			}
		}
	}
	if debugTiming {
		for cl, idxs := range mod.classes {
			var xs []string
			for ix := range idxs {
				xs = append(xs, c.Show(ix))
			}
			fmt.Printf("  [loop %s#%d] modifies %s at %v (shape known: %v)\n", fr.fn.Name(), li.idx, cl, xs, idxs != nil)
		}
	}
	// ---- havoc
	ls := &loopSyms{initMap: map[*Term]*Term{}, phiComp: map[*Term]phiRef{}, clsFull: map[*Term]string{}, clsAt: map[*Term]clsIdx{}}
	li.phiVals = map[*ssa.Phi]*SVal{}
	for _, p := range li.phis {
		name := p.Comment
		if name == "" {
			name = p.Name()
		}
		hv := e.freshVal(fmt.Sprintf("L%d.%s", li.idx, name), p.Type())
		// keep syntactic knowledge that does not change: function values
		if ev := entry[p]; ev.K == KFunc || ev.K == KIface {
			hv.Dyn = nil
		}
		li.phiVals[p] = hv
		fr.vals[p] = hv
		hc, ec := svalComps(hv), svalComps(entry[p])
		for k := range hc {
			ls.syms = append(ls.syms, hc[k])
			ls.initMap[hc[k]] = ec[k]
			ls.phiComp[hc[k]] = phiRef{p, k}
		}
	}
	stH := stIn.clone()
	if mod.all {
		stH = &State{m: map[string]*Term{}, epoch: e.nextEpoch()}
		// everything is havocked: every class known so far gets a header symbol of its own, tied to
		// its value on entry (initMap) and at the back edge (stepMap), so that invariants over the
		// heap can be established and preserved. Classes first touched later are created lazily.
		var known []string
		for cl := range e.sorts {
			known = append(known, cl)
		}
		sort.Strings(known)
		for _, cl := range known {
			old := e.get(stIn, cl, e.sorts[cl])
			if immutableClass(cl) || strings.HasPrefix(cl, "glob:") {
				stH.m[cl] = old
				continue
			}
			if _, modified := mod.classes[cl]; !modified && mod.edges > 0 && mod.kept[cl] == mod.edges {
				// explicitly preserved across the havoc on every path round the loop (e.g. ghost state
				// that the callee cannot reach)
				stH.m[cl] = old
				continue
			}
			f := c.Fresh(fmt.Sprintf("L%d.%s", li.idx, cl), old.S)
			stH.m[cl] = f
			ls.syms = append(ls.syms, f)
			ls.initMap[f] = old
			ls.clsFull[f] = cl
		}
	}
	memo := map[*Term]bool{}
	var classes []string
	for cl := range mod.classes {
		classes = append(classes, cl)
	}
	sort.Strings(classes)
	for _, cl := range classes {
		if mod.all {
			break
		}
		old := e.get(stIn, cl, e.sorts[cl])
		idxs := mod.classes[cl]
		refined := idxs != nil
		if refined {
			for ix := range idxs {
				if mentionsFreshAfter(ix, freshMark, memo) {
					refined = false
					break
				}
			}
		}
		if refined && len(idxs) <= 4 {
			t := old
			var ixs []*Term
			for ix := range idxs {
				ixs = append(ixs, ix)
			}
			sort.Slice(ixs, func(i, j int) bool { return ixs[i].id < ixs[j].id })
			for _, ix := range ixs {
				f := c.Fresh(fmt.Sprintf("L%d.%s", li.idx, cl), old.S.E)
				t = c.Store(t, ix, f)
				ls.syms = append(ls.syms, f)
				ls.initMap[f] = c.Select(old, ix)
				ls.clsAt[f] = clsIdx{cl, ix}
			}
			stH.m[cl] = t
		} else {
			f := c.Fresh(fmt.Sprintf("L%d.%s", li.idx, cl), old.S)
			stH.m[cl] = f
			ls.syms = append(ls.syms, f)
			ls.initMap[f] = old
			ls.clsFull[f] = cl
		}
	}
	for _, sy := range ls.syms {
		if sy.S == RefS {
			e.loopRefSyms = append(e.loopRefSyms, sy)
		}
	}
	li.stH = stH
	li.reachH = reach
	e.cur = stH
	fr.loopSyms(li, ls)
	// ---- invariants: user + candidates, as terms over header symbols
	li.invs = nil
	ct := e.w.Contracts[fr.fn]
	if e.pure > 0 {
		ct = nil // no obligations are generated in this mode, so no invariant may be assumed
	}
	if ct != nil {
		for _, cl := range ct.Invs {
			if cl.Loop != li.idx {
				continue
			}
			if cl.Slow && !thoroughTier {
				// a ~ invariant is neither proved nor assumed in the quick tier
				skippedSlow++
				continue
			}
			env := e.contractEnv(fr, ct, nil, stH, e.entryOr(stIn))
			env.loop = li
			li.initMap = ls.initMap
			t := env.trClause(cl)
			tag := cl.Tag
			if tag == "" {
				tag = fmt.Sprintf("inv%d.%d", li.idx, len(li.invs))
			}
			li.invs = append(li.invs, &invariant{tag: tag, text: cl.Text, term: t, cand: "", props: propsOfTag(cl.Tag, ct.Props)})
		}
	}
	for _, cd := range e.genCandidates(fr, li, entry) {
		if e.candDropped[cd.key] || e.pure > 0 {
			continue
		}
		li.invs = append(li.invs, &invariant{tag: cd.key, text: cd.key, term: cd.term, cand: cd.key})
	}
	// init obligations
	for _, inv := range li.invs {
		goal := c.Subst(inv.term, ls.initMap)
		kind := "invariant-init"
		if inv.cand != "" {
			kind = "cand"
		}
		o := e.oblige(kind, fmt.Sprintf("loop%d:%s", li.idx, inv.tag), "loop invariant holds on entry: "+inv.text, goal, b.Instrs[0].Pos())
		if o != nil {
			o.CandKey = inv.cand
			if inv.props != nil {
				o.Props = inv.props
			}
		}
	}
	// assume at header
	for _, inv := range li.invs {
		e.assume(inv.term)
	}
	// user variant
	li.variant = nil
	if ct != nil {
		for _, cl := range ct.Decr {
			if cl.Loop == li.idx {
				env := e.contractEnv(fr, ct, nil, stH, e.entryOr(stIn))
				env.loop = li
				li.initMap = ls.initMap
				v := env.trClauseVal(cl)
				li.variant = c.Resize(v.T, 64, true)
				li.varDesc = cl.Text
			}
		}
	}
}

func (e *Encoder) entryOr(st *State) *State {
	if e.entry != nil {
		return e.entry
	}
	return st
}

// propsOfTag: "C07.name" -> [C07]; "C20+C07.name" -> [C20 C07]
func propsOfTag(tag string, def []string) []string {
	if len(tag) >= 3 && tag[0] == 'C' && tag[1] >= '0' && tag[1] <= '9' {
		if k := strings.Index(tag, "."); k > 0 {
			return strings.Split(tag[:k], "+")
		}
	}
	return def
}

func (e *Encoder) nextEpoch() int {
	e.epochN++
	return e.epochN
}

type modSet struct {
	all     bool
	classes map[string]map[*Term]bool // class -> outer store indices (nil = unknown shape)
	kept    map[string]int            // classes carried unchanged to a back edge although memory was havocked (count of back edges)
	edges   int
}

// dryRun executes the loop body once with havocked phis and reports which
// location classes it modifies (and, where the shape allows, at which indices).
func (e *Encoder) dryRun(fr *frame, li *loopInfo, stIn *State, entry map[*ssa.Phi]*SVal) modSet {
	nAss, nObl, nAlloc := len(e.assumptions), len(e.obls), e.allocN
	nLoopRefs := len(e.loopRefSyms)
	nRets := len(fr.rets)
	nDef := len(fr.defers)
	savedGuard := e.guard
	savedEdges := map[[2]int]*Term{}
	for k, v := range fr.edge {
		savedEdges[k] = v
	}
	idc := map[string]int{}
	for k, v := range e.idCount {
		idc[k] = v
	}
	warn := map[string]bool{}
	for k := range e.warnings {
		warn[k] = true
	}
	ufSeen := map[*Term]bool{}
	for k := range e.ufAxiomSeen {
		ufSeen[k] = true
	}
	e.pure++
	fr.dry++
	defer func() {
		e.ufAxiomSeen = ufSeen
		e.pure--
		fr.dry--
		e.assumptions = e.assumptions[:nAss]
		e.loopRefSyms = e.loopRefSyms[:nLoopRefs]
		e.obls = e.obls[:nObl]
		e.allocN = nAlloc
		fr.rets = fr.rets[:nRets]
		fr.defers = fr.defers[:nDef]
		fr.edge = savedEdges
		e.guard = savedGuard
		e.idCount = idc
	}()
	for _, p := range li.phis {
		fr.vals[p] = e.freshVal("dry."+p.Name(), p.Type())
	}
	ms := modSet{classes: map[string]map[*Term]bool{}}
	base := stIn.clone()
	// make sure every class has a symbol in base so that we can diff
	e.cur = base.clone()
	var blocks []*ssa.BasicBlock
	for _, b := range fr.order {
		if li.body[b] {
			blocks = append(blocks, b)
		}
	}
	fr.reach[li.header] = e.guard
	for i, b := range blocks {
		if i > 0 {
			if !e.enterBlock(fr, b) {
				continue
			}
		}
		e.execBlock(fr, b, i == 0)
		for _, s := range b.Succs {
			if s == li.header && fr.back[[2]int{b.Index, s.Index}] {
				out := fr.out[b]
				if out.epoch != base.epoch {
					ms.all = true
				}
				ms.edges++
				for _, cl := range sortedStrKeys(out.m) {
					t := out.m[cl]
					old, ok := base.m[cl]
					if !ok {
						old = e.get(base, cl, e.sorts[cl])
					}
					if t == old {
						if ms.kept == nil {
							ms.kept = map[string]int{}
						}
						ms.kept[cl]++
						continue
					}
					acc := map[*Term]bool{}
					if storeIdxs(t, old, acc, 0) {
						if prev, seen := ms.classes[cl]; seen && prev == nil {
							continue
						} else if seen {
							for k := range acc {
								prev[k] = true
							}
						} else {
							ms.classes[cl] = acc
						}
					} else {
						ms.classes[cl] = nil
					}
				}
			}
		}
	}
	return ms
}

func (fr *frame) loopSyms(li *loopInfo, ls *loopSyms) {
	if fr.lsyms == nil {
		fr.lsyms = map[*loopInfo]*loopSyms{}
	}
	fr.lsyms[li] = ls
}

// stepMap builds the substitution header-symbol -> value after one iteration.
func (e *Encoder) stepMap(fr *frame, li *loopInfo, u *ssa.BasicBlock) map[*Term]*Term {
	c := e.c
	ls := fr.lsyms[li]
	m := map[*Term]*Term{}
	predIdx := -1
	for k, p := range li.header.Preds {
		if p == u {
			predIdx = k
		}
	}
	next := map[*ssa.Phi][]*Term{}
	for _, p := range li.phis {
		nv := e.coerce(e.val(fr, p.Edges[predIdx]), p.Type())
		next[p] = svalComps(nv)
	}
	out := fr.out[u]
	for _, s := range ls.syms {
		if pr, ok := ls.phiComp[s]; ok {
			m[s] = next[pr.phi][pr.k]
		} else if cl, ok := ls.clsFull[s]; ok {
			m[s] = e.get(out, cl, e.sorts[cl])
		} else if ci, ok := ls.clsAt[s]; ok {
			m[s] = c.Select(e.get(out, ci.class, e.sorts[ci.class]), ci.idx)
		}
	}
	return m
}

func (e *Encoder) loopBackEdge(fr *frame, li *loopInfo, u *ssa.BasicBlock) {
	if fr.dry > 0 && fr.lsyms[li] == nil {
		return
	}
	if e.pure > 0 {
		return
	}
	c := e.c
	saved := e.guard
	e.guard = fr.edge[[2]int{u.Index, li.header.Index}]
	defer func() { e.guard = saved }()
	m := e.stepMap(fr, li, u)
	if li.stH.epoch != fr.out[u].epoch && len(li.invs) > 0 {
		e.subsetWarn("loop body changes the memory epoch; heap-dependent invariants are not preserved")
	}
	pos := li.header.Instrs[0].Pos()
	for _, inv := range li.invs {
		goal := c.Subst(inv.term, m)
		kind := "invariant-step"
		if inv.cand != "" {
			kind = "cand"
		}
		o := e.oblige(kind, fmt.Sprintf("loop%d:%s", li.idx, inv.tag), "loop invariant preserved: "+inv.text, goal, pos)
		if o != nil {
			o.CandKey = inv.cand
			if inv.props != nil {
				o.Props = inv.props
			}
		}
	}
	// termination
	v := li.variant
	desc := li.varDesc
	if v == nil {
		v = li.autoVariant
		desc = li.autoVarDesc
	}
	if v == nil {
		if e.contract != nil && len(e.inlineStack) == 0 && e.contract.Options[fmt.Sprintf("peer-terminated:%d", li.idx)] {
			// "option peer-terminated:<loop>": the loop follows a chain supplied by the peer (e.g. the
			// BMC's next-record IDs); its termination is not a property of this code and is not claimed
			e.trusted[fmt.Sprintf("loop %d of %s ends when the peer's chain does (termination not claimed)", li.idx, shortFn(e.top))] = true
			return
		}
		e.oblige("variant", fmt.Sprintf("loop%d", li.idx), "loop has a variant (none given or inferred)", c.False(), pos)
		return
	}
	vn := c.Subst(v, m)
	goal := c.And(c.BVCmp("bvsle", c.BVLit(0, 64), v), c.BVCmp("bvslt", vn, v))
	e.oblige("variant", fmt.Sprintf("loop%d", li.idx), "loop variant "+desc+" is bounded below and strictly decreases", goal, pos)
}

// inferVariant looks at the loop's exit test in the header block.
func (e *Encoder) inferVariant(fr *frame, li *loopInfo) {
	c := e.c
	li.autoVariant = nil
	var ifi *ssa.If
	for _, in := range li.header.Instrs {
		if x, ok := in.(*ssa.If); ok {
			ifi = x
		}
	}
	if ifi == nil {
		return
	}
	bo, ok := ifi.Cond.(*ssa.BinOp)
	if !ok {
		return
	}
	// which successor stays in the loop?
	stayTrue := li.body[li.header.Succs[0]]
	x, okx := fr.vals[bo.X]
	if !okx {
		if cv, isc := bo.X.(*ssa.Const); isc {
			x = e.constVal(cv)
		} else {
			return
		}
	}
	y, oky := fr.vals[bo.Y]
	if !oky {
		if cv, isc := bo.Y.(*ssa.Const); isc {
			y = e.constVal(cv)
		} else {
			return
		}
	}
	if x.T == nil || y.T == nil || x.T.S.K != SBV {
		return
	}
	sg := isSigned(bo.X.Type())
	xt, yt := c.Resize(x.T, 64, sg), c.Resize(y.T, 64, sg)
	op := bo.Op
	if !stayTrue {
		switch op {
		case token.LSS:
			op = token.GEQ
		case token.LEQ:
			op = token.GTR
		case token.GTR:
			op = token.LEQ
		case token.GEQ:
			op = token.LSS
		default:
			return
		}
	}
	switch op {
	case token.LSS:
		li.autoVariant = c.BVBin("bvsub", yt, xt)
	case token.LEQ:
		li.autoVariant = c.BVBin("bvadd", c.BVBin("bvsub", yt, xt), c.BVLit(1, 64))
	case token.GTR:
		li.autoVariant = c.BVBin("bvsub", xt, yt)
	case token.GEQ:
		li.autoVariant = c.BVBin("bvadd", c.BVBin("bvsub", xt, yt), c.BVLit(1, 64))
	default:
		return
	}
	li.autoVarDesc = fmt.Sprintf("(inferred from the loop test %s)", fr.anchorFor(e, bo, bo.Name()))
}

type candidate struct {
	key  string
	term *Term
}

// genCandidates proposes simple range invariants over the integer phis.
func (e *Encoder) genCandidates(fr *frame, li *loopInfo, entry map[*ssa.Phi]*SVal) []candidate {
	c := e.c
	var out []candidate
	// bounds: lengths of slices/strings visible outside the loop, integer values compared in the loop
	type bound struct {
		name string
		t    *Term
		sg   bool
	}
	var bounds []bound
	seen := map[*Term]bool{}
	addB := func(name string, t *Term, sg bool) {
		if t == nil || seen[t] || t.S.K != SBV {
			return
		}
		seen[t] = true
		bounds = append(bounds, bound{name, t, sg})
	}
	for _, p := range fr.fn.Params {
		if v, ok := fr.vals[p]; ok && (v.K == KSlice || v.K == KString) {
			addB("len("+p.Name()+")", v.Len, true)
		}
	}
	for _, b := range sortedBlocks(li.body) {
		for _, in := range b.Instrs {
			bo, ok := in.(*ssa.BinOp)
			if !ok {
				continue
			}
			switch bo.Op {
			case token.LSS, token.LEQ, token.GTR, token.GEQ, token.NEQ, token.EQL:
			default:
				continue
			}
			for _, opnd := range []ssa.Value{bo.X, bo.Y} {
				// len(x) of a sequence that does not change in the loop is a loop-invariant bound
				if call, ok := opnd.(*ssa.Call); ok {
					if bi, ok := call.Call.Value.(*ssa.Builtin); ok && bi.Name() == "len" && len(call.Call.Args) == 1 && !inLoop(li, call.Call.Args[0]) {
						if v, ok := fr.vals[call.Call.Args[0]]; ok && (v.K == KSlice || v.K == KString) {
							addB("len("+call.Call.Args[0].Name()+")", v.Len, true)
						}
					}
				}
				if inLoop(li, opnd) {
					continue
				}
				if v, ok := fr.vals[opnd]; ok && v.K == KScalar && v.T.S.K == SBV {
					addB(opnd.Name(), v.T, isSigned(opnd.Type()))
				} else if cv, ok := opnd.(*ssa.Const); ok && cv.Value != nil && kindOf(cv.Type()) == KScalar {
					sv := e.constVal(cv)
					if sv.T.S.K == SBV {
						addB("const"+fmt.Sprint(sv.T.V), sv.T, isSigned(cv.Type()))
					}
				}
			}
		}
	}
	for _, p := range li.phis {
		hv := li.phiVals[p]
		if hv.K != KScalar || hv.T.S.K != SBV {
			continue
		}
		name := p.Comment
		if name == "" {
			name = p.Name()
		}
		sg := isSigned(p.Type())
		lt, le := "bvult", "bvule"
		if sg {
			lt, le = "bvslt", "bvsle"
		}
		ev := entry[p].T
		w := hv.T.S.W
		pre := fmt.Sprintf("%s:loop%d:%s", shortFn(fr.fn), li.idx, name)
		out = append(out, candidate{pre + ":ge-entry", c.BVCmp(le, ev, hv.T)})
		out = append(out, candidate{pre + ":le-entry", c.BVCmp(le, hv.T, ev)})
		for _, bd := range bounds {
			bt := bd.t
			if bt.S.W != w {
				bt = c.Resize(bt, w, bd.sg)
			}
			out = append(out, candidate{pre + ":lt:" + bd.name, c.BVCmp(lt, hv.T, bt)})
			out = append(out, candidate{pre + ":le:" + bd.name, c.BVCmp(le, hv.T, bt)})
		}
	}
	return out
}

func inLoop(li *loopInfo, v ssa.Value) bool {
	in, ok := v.(ssa.Instruction)
	if !ok {
		return false
	}
	return li.body[in.Block()]
}

var _ = types.Typ
