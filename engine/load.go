package main

// Loader: /repo working tree + contract overlay -> typed AST + SSA; contract
// block parser.

import (
	"fmt"
	"go/ast"
	"go/token"
	"go/types"
	"os"
	"os/exec"
	"path/filepath"
	"regexp"
	"sort"
	"strconv"
	"strings"
	"sync"

	"golang.org/x/tools/go/packages"
	"golang.org/x/tools/go/ssa"
	"golang.org/x/tools/go/ssa/ssautil"
)

const modPath = "github.com/gebn/bmc"

type World struct {
	RepoDir      string
	ContractsDir string
	Fset         *token.FileSet
	Pkgs         map[string]*packages.Package // by import path (all, incl deps)
	Prog         *ssa.Program
	SSAPkgs      map[string]*ssa.Package
	Contracts    map[*ssa.Function]*Contract
	ByName       map[string]*Contract // "pkgpath:funcname"
	FuncDecls    map[*ssa.Function]ast.Node
	AllFuncs     map[*ssa.Function]bool
	ContractDiff []string // repo copies of contract files that differ from /verif's
	Lemmas       []*Contract
	tags         map[string]int
	tagNames     []string
	tagTypes     []types.Type
	mu           sync.Mutex
	tagMu        sync.Mutex
	implCache    map[string][]types.Type
	addrTaken    map[*ssa.Function]bool
}

type Clause struct {
	Kind   string // requires ensures invariant decreases assert
	Tag    string
	Loop   int
	Text   string
	Line   int
	File   string
	Expr   ast.Expr
	Info   *types.Info
	Props  []string
	Slow   bool
	Callee string
	// Ordinal > 0: an at-clause that applies only to the Ordinal-th call (source order) matching Callee
	Ordinal int
}

type Contract struct {
	Pkg        *packages.Package
	FuncName   string // as written: "(*Message).DecodeFromBytes"
	Fn         *ssa.Function
	Props      []string
	Requires   []*Clause
	Ensures    []*Clause
	Invs       []*Clause
	Decr       []*Clause
	Assigns    []*Clause // each is a location expression (or "nothing")
	AssignsAny bool
	Config     []*Clause
	Mode       string // "", "inline", "trusted", "pure", "lemma"
	Locals     map[string]string
	File       string
	Line       int
	Options    map[string]bool
	AtCalls    []*Clause
	Splits     []*Clause // case-split predicates (over the entry state): every obligation is proved once per case
	Nocheck    bool      // contract is assumed at call sites but the body is not verified here (trusted)
	NoOverread bool
}

var clauseRe = regexp.MustCompile(`^(\w+)\s*(.*)$`)
var tagRe = regexp.MustCompile(`^\[([A-Za-z0-9_.+\-]+~?)\]\s*(.*)$`)

func relPkgDir(pkgPath string) string {
	if pkgPath == modPath {
		return "."
	}
	return strings.TrimPrefix(pkgPath, modPath+"/")
}

const preludeSrc = `//go:build verif

package %s

// Contract-language built-ins. Declarations only; they are never called by
// non-verif code. The verifier interprets them; replays execute them.

func old[T any](x T) T { return x }

func implies(a, b bool) bool { return !a || b }

// now(x), used inside old(...): x is evaluated in the post-state.
func now[T any](x T) T { return x }

func ite[T any](c bool, a, b T) T {
	if c {
		return a
	}
	return b
}

// res stands for the i-th result of the function under contract.
func res[T any](i int) T { var z T; return z }

// arg[T](k): in an at-call clause, the k-th argument of the call (receiver first for method calls).
func arg[T any](i int) T { var z T; return z }

// quantifier variables
var qi, qj, qk int

// rangeindex names the hidden index of a for-range loop in its invariant:
// the index of the element processed last (-1 before the first iteration).
var rangeindex int

// iter names, in a loop invariant, the number of iterations completed so far (however the loop is written).
var iter int

func forall(v int, lo, hi int, body bool) bool { return body }
func exists(v int, lo, hi int, body bool) bool { return body }

// isnil reports whether an interface / pointer / slice value is nil.
func isnil(x any) bool { return x == nil }

// sameBytes(s, t, lo, n): s[i] == t[lo+i] for 0 <= i < n, and len(s) == n
func sameBytes(s []byte, t []byte, lo int, n int) bool {
	if len(s) != n || lo < 0 || lo > len(t) || n > len(t)-lo {
		return false
	}
	for i := 0; i < n; i++ {
		if s[i] != t[lo+i] {
			return false
		}
	}
	return true
}

// aliases(s, t, lo, hi): s is exactly the window t[lo:hi]
func aliases(s []byte, t []byte, lo, hi int) bool {
	if lo < 0 || hi < lo || hi > len(t) || len(s) != hi-lo {
		return false
	}
	if hi == lo {
		return true
	}
	return &s[0] == &t[lo]
}

// bufValid(b): b is a well-formed gopacket serialize buffer (0 <= start <= len(data) <= cap(data), ...).
func bufValid(b any) bool { return b != nil }

// bufSmall(b): bufValid and, additionally, capacity and growth increments below 2^26 bytes
// (the precondition of every serialiser: an assumption about memory size, not about the code).
func bufSmall(b any) bool { return b != nil }

// holdsFunc(x, "pkg.Func"): x is (an interface wrapping a function-typed value equal to) that function.
func holdsFunc(x any, name string) bool { return x != nil }

// Hash ghost (DESIGN.md s5.4): a hash.Hash has an abstract absorb state.
// hInit(h) is the freshly keyed / reset state, hState(h) the current one,
// hAbsorb* extend a state, hIsDigest(b, st) says b holds the leading bytes of
// the digest of st, hSizeOf(h) is the number of bytes Sum appends.
// hmacKeyed(ctor, key) is the initial state of an HMAC over the named hash
// constructor keyed with the bytes of key; hmacKeyedDigest(ctor, st, n) the
// same with the first n digest bytes of state st as the key.
func hState(h any) int                                  { return 0 }
func hInit(h any) int                                   { return 0 }
func hSizeOf(h any) int                                 { return 0 }
func hAbsorb(st int, b []byte) int                      { return st }
func hAbsorbStr(st int, s string) int                   { return st }
func hAbsorbByte(st int, b byte) int                    { return st }
func hIsDigest(b []byte, st int) bool                   { return true }
func hmacKeyed(ctor string, key []byte) int             { return 0 }
func hmacKeyedDigest(ctor string, st int, n int) int    { return 0 }
func hmacKeyedBy(ctor any, key []byte) int              { return 0 }
func hashLenBy(ctor any) int                            { return 0 }
func isPlainHash(h any) bool                            { return true }

// unchanged(x): the addressable value x has, field by field, the value it had on entry.
func unchanged[T any](x T) bool { return true }
func aesKeyByte(block any, k int) byte                  { return 0 }
func hDigestByte(st int, k int) byte                    { return 0 }

// sends(): ghost counter of datagrams handed to transport.Send so far.
func sends() int { return 0 }

// randFills(s): how many crypto/rand.Read calls so far wrote a draw starting at s[0].
func randFills(s []byte) int { return 0 }

// lastSendFailed(): the most recent transport.Send returned an error.
func lastSendFailed() bool { return false }

// metric(m): ghost value of a prometheus counter / gauge.
func metric(m any) int { return 0 }

// metricvec(v, label): the child of metric vector v for the label; metricsOnly(m...): no metric other than the listed ones changed.
func metricvec(v any, label string) int { return 0 }
func metricsOnly(m ...any) bool          { return true }

// hasKey(m, k): map m has an entry for k. cur(x): the current value of a reassigned parameter / local.
func hasKey[K comparable, V any](m map[K]V, k K) bool { _, ok := m[k]; return ok }

// captured[T](): the one variable of type T captured by the closure under contract.
func captured[T any]() T { var z T; return z }

// bufWrites(b) / bufLen(b): ghost counters of a bytes.Buffer (Write calls, bytes written).
func bufWrites(b any) int { return 0 }
func bufLen(b any) int    { return 0 }

// mapLenSum(m): sum of the lengths of the slices stored in m.
func mapLenSum[K comparable, V any](m map[K][]V) int {
	n := 0
	for _, v := range m {
		n += len(v)
	}
	return n
}
func cur[T any](x T) T                                 { return x }

// atentry(x), in a loop invariant: the value of x when the loop was entered.
func atentry[T any](x T) T { return x }

// Deadline discipline (C13): see DESIGN.md s9 C13.
func ctxChildOf(c, parent any) bool                      { return true }
func backoffBoundTo(b, ctx any) bool                     { return true }
func ctxHasDeadline(ctx any) bool                        { return true }
func socketDeadlineIs(conn any, kind string, ctx any) bool { return true }

// bufRoom(b, front, back): the buffer can take front more bytes in front and back more behind without reallocating.
func bufRoom(b any, front, back int) bool { return b != nil }

// bufMedium(b): the same with the bound 2^31 (what remains after a few doublings).
func bufMedium(b any) bool { return b != nil }

// bufBytes(b): the bytes currently in the buffer, b.Bytes().
func bufBytes(b interface{ Bytes() []byte }) []byte { return b.Bytes() }

// window(s, t, lo, hi): s is exactly t[lo:hi] (same backing array and start, also when empty).
func window(s []byte, t []byte, lo, hi int) bool { return aliases(s, t, lo, hi) }

// isnew(x): the backing array of x was allocated by the function under contract.
func isnew[T any](x []T) bool { return true }

// isnewobj(p): p points to an object allocated during the call.
func isnewobj[T any](p *T) bool { return p != nil }

// otherarray(a, b): the slices are backed by different arrays (or a is empty).
func otherarray[A, B any](a []A, b []B) bool { return true }

// isnewmap(m): the map was made during the call.
func isnewmap[K comparable, V any](m map[K]V) bool { return m != nil }

// samebase(x, y): x and y share their backing array and x starts where y starts.
func samebase(x, y []byte) bool { return cap(x) == 0 || cap(y) == 0 || &x[:1][0] == &y[:1][0] }

// dyntype(x, "T") : the dynamic type of interface x is T
func dyntype(x any, name string) bool { return true }
`

func loadWorld(repoDir, contractsDir string) (*World, error) {
	w := &World{RepoDir: repoDir, ContractsDir: contractsDir, Pkgs: map[string]*packages.Package{},
		SSAPkgs: map[string]*ssa.Package{}, Contracts: map[*ssa.Function]*Contract{}, ByName: map[string]*Contract{},
		FuncDecls: map[*ssa.Function]ast.Node{}, tags: map[string]int{}}
	overlay := map[string][]byte{}
	contractFiles := map[string]string{} // overlay path -> source path
	depPkgs := map[string]string{}       // overlay path -> import path (dependency contracts)
	depImports := map[string]bool{}
	filepath.Walk(contractsDir, func(p string, fi os.FileInfo, err error) error {
		if err != nil || fi.IsDir() || !strings.HasSuffix(p, "_verif.go") {
			return nil
		}
		rel, _ := filepath.Rel(contractsDir, p)
		if strings.HasPrefix(rel, "trusted") {
			return nil
		}
		dst := filepath.Join(repoDir, rel)
		if strings.HasPrefix(rel, "_deps/") {
			// contracts on a dependency: overlaid into the module cache copy of that package
			imp := filepath.ToSlash(filepath.Dir(strings.TrimPrefix(rel, "_deps/")))
			dir := depCopyDir(repoDir, imp)
			if dir == "" {
				return nil
			}
			dst = filepath.Join(dir, filepath.Base(p))
			depPkgs[dst] = imp
			depImports[imp] = true
		}
		b, err := os.ReadFile(p)
		if err != nil {
			return nil
		}
		overlay[dst] = b
		contractFiles[dst] = p
		if m := regexp.MustCompile(`(?m)^package (\w+)`).FindSubmatch(b); m != nil {
			overlay[filepath.Join(filepath.Dir(dst), "zz_prelude_verif.go")] = []byte(fmt.Sprintf(preludeSrc, string(m[1])))
		}
		if _, isDep := depPkgs[dst]; isDep {
			// dependency contracts live only in /verif
		} else if rb, err := os.ReadFile(dst); err == nil {
			if string(rb) != string(b) {
				w.ContractDiff = append(w.ContractDiff, rel)
			}
		} else {
			w.ContractDiff = append(w.ContractDiff, rel+" (absent in repo)")
		}
		return nil
	})
	flags := []string{"-tags=verif"}
	if mf := depModFile(repoDir); mf != "" {
		flags = append(flags, "-modfile="+mf)
	}
	cfg := &packages.Config{Mode: packages.LoadAllSyntax, Dir: repoDir, BuildFlags: flags, Overlay: overlay,
		Env: append(os.Environ(), "GOFLAGS=-mod=mod", "GOPROXY=off", "GOSUMDB=off", "GOTOOLCHAIN=local")}
	pkgs, err := packages.Load(cfg, "./...")
	if err != nil {
		return nil, err
	}
	var errs []string
	packages.Visit(pkgs, nil, func(p *packages.Package) {
		w.Pkgs[p.PkgPath] = p
		_, isDepWithContracts := depImports[p.PkgPath]
		if strings.HasPrefix(p.PkgPath, modPath) || isDepWithContracts {
			for _, e := range p.Errors {
				errs = append(errs, e.Error())
			}
		}
	})
	if len(errs) > 0 {
		return nil, fmt.Errorf("load errors (repo does not type-check with contracts):\n%s", strings.Join(errs, "\n"))
	}
	w.Fset = pkgs[0].Fset
	prog, _ := ssautil.AllPackages(pkgs, ssa.GlobalDebug|ssa.InstantiateGenerics)
	prog.Build()
	w.Prog = prog
	for _, sp := range prog.AllPackages() {
		w.SSAPkgs[sp.Pkg.Path()] = sp
	}
	w.AllFuncs = ssautil.AllFunctions(prog)
	// map functions to syntax
	for f := range w.AllFuncs {
		if f.Syntax() != nil {
			w.FuncDecls[f] = f.Syntax()
		}
	}
	// parse contract blocks
	var paths []string
	for dst := range contractFiles {
		paths = append(paths, dst)
	}
	sort.Strings(paths)
	for _, dst := range paths {
		dir := filepath.Dir(dst)
		rel, _ := filepath.Rel(repoDir, dir)
		pkgPath := modPath
		if rel != "." {
			pkgPath = modPath + "/" + filepath.ToSlash(rel)
		}
		if imp, ok := depPkgs[dst]; ok {
			pkgPath = imp
		}
		p := w.Pkgs[pkgPath]
		if p == nil {
			return nil, fmt.Errorf("contract file %s: no package %s", dst, pkgPath)
		}
		if err := w.parseContracts(p, contractFiles[dst], string(overlay[dst])); err != nil {
			return nil, err
		}
	}
	return w, nil
}

func (w *World) parseContracts(p *packages.Package, file, src string) error {
	lines := strings.Split(src, "\n")
	var cur *Contract
	var last *Clause
	flush := func() {
		cur = nil
		last = nil
	}
	for i, ln := range lines {
		t := strings.TrimSpace(ln)
		if !strings.HasPrefix(t, "//@") {
			if strings.HasPrefix(t, "//") {
				last = nil // an ordinary comment inside a block
				continue
			}
			flush()
			continue
		}
		body := t[3:]
		if strings.TrimSpace(body) == "" {
			continue
		}
		// continuation: starts with 3+ spaces
		if strings.HasPrefix(body, "   ") && last != nil {
			last.Text += " " + strings.TrimSpace(body)
			continue
		}
		body = strings.TrimSpace(body)
		// strip trailing comment
		if k := strings.Index(body, " // "); k >= 0 {
			body = strings.TrimSpace(body[:k])
		}
		m := clauseRe.FindStringSubmatch(body)
		if m == nil {
			return fmt.Errorf("%s:%d: cannot parse contract line %q", file, i+1, body)
		}
		kw, rest := m[1], strings.TrimSpace(m[2])
		if kw == "func" || kw == "lemma" {
			cur = &Contract{Pkg: p, FuncName: rest, File: file, Line: i + 1, Locals: map[string]string{}}
			if kw == "lemma" {
				cur.Mode = "lemma"
				w.Lemmas = append(w.Lemmas, cur)
			} else {
				fn := w.findFunc(p.PkgPath, rest)
				if fn == nil {
					return fmt.Errorf("%s:%d: contract names unknown function %q in %s", file, i+1, rest, p.PkgPath)
				}
				cur.Fn = fn
				if _, dup := w.Contracts[fn]; dup {
					return fmt.Errorf("%s:%d: duplicate contract for %s", file, i+1, rest)
				}
				w.Contracts[fn] = cur
				w.ByName[p.PkgPath+":"+rest] = cur
			}
			last = nil
			continue
		}
		if cur == nil {
			return fmt.Errorf("%s:%d: clause outside a contract block", file, i+1)
		}
		cl := &Clause{Kind: kw, Line: i + 1, File: file}
		switch kw {
		case "props":
			cur.Props = strings.Fields(rest)
			last = nil
			continue
		case "inline", "trusted", "pure":
			cur.Mode = kw
			if kw == "trusted" {
				cur.Nocheck = true
			}
			last = nil
			continue
		case "nooverread":
			cur.NoOverread = true
			last = nil
			continue
		case "option":
			if cur.Options == nil {
				cur.Options = map[string]bool{}
			}
			for _, o := range strings.Fields(rest) {
				cur.Options[o] = true
			}
			last = nil
			continue
		case "locals":
			for _, d := range strings.Split(rest, ",") {
				f := strings.Fields(strings.TrimSpace(d))
				if len(f) == 2 {
					cur.Locals[f[0]] = f[1]
				}
			}
			last = nil
			continue
		case "invariant", "decreases":
			var k int
			n, _ := fmt.Sscanf(rest, "%d", &k)
			if n != 1 {
				return fmt.Errorf("%s:%d: %s needs a loop index", file, i+1, kw)
			}
			rest = strings.TrimSpace(rest[strings.IndexAny(rest, " \t")+1:])
			cl.Loop = k
		}
		if tm := tagRe.FindStringSubmatch(rest); tm != nil {
			cl.Tag = tm[1]
			if strings.HasSuffix(cl.Tag, "~") {
				// a trailing ~ marks a clause whose proof is slow: it is checked in the thorough tier only
				cl.Tag = strings.TrimSuffix(cl.Tag, "~")
				cl.Slow = true
			}
			rest = tm[2]
		}
		cl.Text = rest
		switch kw {
		case "at":
			// at <callee substring> assert [tag] expr
			f := strings.SplitN(rest, " assert ", 2)
			if len(f) != 2 {
				return fmt.Errorf("%s:%d: expected: at <callee> assert <expr>", file, i+1)
			}
			cl.Callee = strings.TrimSpace(f[0])
			if k := strings.LastIndex(cl.Callee, "#"); k > 0 {
				// "callee#k": only the k-th matching call of the function, in source order (1-based)
				n, err := strconv.Atoi(cl.Callee[k+1:])
				if err != nil || n < 1 {
					return fmt.Errorf("%s:%d: at %s: the ordinal after # must be a positive number", file, i+1, cl.Callee)
				}
				cl.Callee, cl.Ordinal = cl.Callee[:k], n
			}
			rest = strings.TrimSpace(f[1])
			cl.Tag = ""
			if tm := tagRe.FindStringSubmatch(rest); tm != nil {
				cl.Tag = tm[1]
				if strings.HasSuffix(cl.Tag, "~") {
					cl.Tag = strings.TrimSuffix(cl.Tag, "~")
					cl.Slow = true
				}
				rest = tm[2]
			}
			cl.Text = rest
			cur.AtCalls = append(cur.AtCalls, cl)
		case "split":
			cur.Splits = append(cur.Splits, cl)
		case "requires":
			cur.Requires = append(cur.Requires, cl)
		case "ensures":
			cur.Ensures = append(cur.Ensures, cl)
		case "invariant":
			cur.Invs = append(cur.Invs, cl)
		case "decreases":
			cur.Decr = append(cur.Decr, cl)
		case "assigns":
			cur.Assigns = append(cur.Assigns, cl)
		case "config":
			cur.Config = append(cur.Config, cl)
		default:
			return fmt.Errorf("%s:%d: unknown clause %q", file, i+1, kw)
		}
		last = cl
	}
	return nil
}

// findFunc resolves "(*T).M", "T.M", "f", "f$1", "(*T).M$1", "init" in a package.
func (w *World) findFunc(pkgPath, name string) *ssa.Function {
	sp := w.SSAPkgs[pkgPath]
	if sp == nil {
		return nil
	}
	// "init@file.go#k": the k-th (1-based, source order) function literal of that file inside the
	// package initialiser - independent of how many literals other files contribute
	if k := strings.Index(name, "@"); k >= 0 {
		parent := sp.Func(name[:k])
		rest := name[k+1:]
		h := strings.Index(rest, "#")
		if parent == nil || h < 0 {
			return nil
		}
		file, idxs := rest[:h], rest[h+1:]
		var idx int
		fmt.Sscanf(idxs, "%d", &idx)
		var cands []*ssa.Function
		for _, a := range parent.AnonFuncs {
			if a.Syntax() != nil && filepath.Base(w.Fset.Position(a.Syntax().Pos()).Filename) == file {
				cands = append(cands, a)
			}
		}
		sort.Slice(cands, func(i, j int) bool { return cands[i].Syntax().Pos() < cands[j].Syntax().Pos() })
		if idx >= 1 && idx <= len(cands) {
			return cands[idx-1]
		}
		return nil
	}
	base := name
	anon := ""
	if k := strings.Index(name, "$"); k >= 0 {
		base, anon = name[:k], name[k:]
	}
	var fn *ssa.Function
	if strings.HasPrefix(base, "(") || strings.Contains(base, ".") {
		// method
		var tn, mn string
		ptr := false
		if strings.HasPrefix(base, "(*") {
			k := strings.Index(base, ")")
			tn, mn, ptr = base[2:k], base[k+2:], true
		} else if strings.HasPrefix(base, "(") {
			k := strings.Index(base, ")")
			tn, mn = base[1:k], base[k+2:]
		} else {
			k := strings.Index(base, ".")
			tn, mn = base[:k], base[k+1:]
		}
		obj := sp.Pkg.Scope().Lookup(tn)
		if obj == nil {
			if os.Getenv("BMCVC_TIMING") != "" {
				fmt.Fprintf(os.Stderr, "findFunc: type %s not in scope of %s (%d names)\n", tn, pkgPath, len(sp.Pkg.Scope().Names()))
			}
			return nil
		}
		var T types.Type = obj.Type()
		if ptr {
			T = types.NewPointer(T)
		}
		ms := w.Prog.MethodSets.MethodSet(T)
		for i := 0; i < ms.Len(); i++ {
			if ms.At(i).Obj().Name() == mn {
				fn = w.Prog.MethodValue(ms.At(i))
			}
		}
	} else {
		fn = sp.Func(base)
	}
	if fn == nil || anon == "" {
		return fn
	}
	want := fn.Name() + anon
	for _, a := range fn.AnonFuncs {
		if a.Name() == want {
			return a
		}
	}
	return nil
}

func (w *World) funcDisplay(f *ssa.Function) string {
	if f == nil {
		return "<nil>"
	}
	s := f.String()
	s = strings.ReplaceAll(s, modPath+"/pkg/", "")
	s = strings.ReplaceAll(s, modPath+"/internal/pkg/", "")
	s = strings.ReplaceAll(s, modPath+".", "bmc.")
	s = strings.ReplaceAll(s, "(*"+modPath+".", "(*bmc.")
	s = strings.ReplaceAll(s, "github.com/google/", "")
	return s
}

// typeTag gives each concrete dynamic type a small positive integer.
func (w *World) typeTag(t types.Type) int {
	w.tagMu.Lock()
	defer w.tagMu.Unlock()
	key := t.String()
	if n, ok := w.tags[key]; ok {
		return n
	}
	n := len(w.tags) + 1
	w.tags[key] = n
	w.tagNames = append(w.tagNames, key)
	w.tagTypes = append(w.tagTypes, t)
	return n
}

var depDirCache = map[string]string{}

// depDir finds the module-cache directory of a dependency package.
func depDir(repoDir, importPath string) string {
	if d, ok := depDirCache[importPath]; ok {
		return d
	}
	cmd := exec.Command("go", "list", "-f", "{{.Dir}}", importPath)
	cmd.Dir = repoDir
	cmd.Env = append(os.Environ(), "GOFLAGS=-mod=mod", "GOPROXY=off", "GOSUMDB=off", "GOTOOLCHAIN=local")
	out, err := cmd.Output()
	d := strings.TrimSpace(string(out))
	if err != nil {
		d = ""
	}
	depDirCache[importPath] = d
	return d
}

// Dependencies that carry contracts are loaded from a mechanical copy of their
// module-cache directory (the go command ignores overlay files added to the
// read-only module cache). The copy is made on every run from the module
// cache; nothing in it is edited - contract files are added through the overlay.
var depCopies = map[string][2]string{} // module path -> {copy dir, version}

func depCopyDir(repoDir, importPath string) string {
	cmd := exec.Command("go", "list", "-f", "{{.Dir}}|{{.Module.Path}}|{{.Module.Version}}|{{.Module.Dir}}", importPath)
	cmd.Dir = repoDir
	cmd.Env = append(os.Environ(), "GOFLAGS=-mod=mod", "GOPROXY=off", "GOSUMDB=off", "GOTOOLCHAIN=local")
	out, err := cmd.Output()
	if err != nil {
		return ""
	}
	f := strings.Split(strings.TrimSpace(string(out)), "|")
	if len(f) != 4 {
		return ""
	}
	pkgDir, modP, ver, modDir := f[0], f[1], f[2], f[3]
	cp, ok := depCopies[modP]
	if !ok {
		dst := filepath.Join(workDirOr(), "deps", strings.ReplaceAll(modP, "/", "_")+"@"+ver)
		os.RemoveAll(dst)
		os.MkdirAll(filepath.Dir(dst), 0o755)
		if err := exec.Command("cp", "-r", modDir, dst).Run(); err != nil {
			return ""
		}
		exec.Command("chmod", "-R", "u+w", dst).Run()
		// the contract prelude uses generics: raise the copy's language version (only go.mod of the copy changes)
		if gm, err := os.ReadFile(filepath.Join(dst, "go.mod")); err == nil {
			re := regexp.MustCompile(`(?m)^go [0-9.]+$`)
			os.WriteFile(filepath.Join(dst, "go.mod"), re.ReplaceAll(gm, []byte("go 1.22")), 0o644)
		}
		cp = [2]string{dst, ver}
		depCopies[modP] = cp
	}
	rel, _ := filepath.Rel(modDir, pkgDir)
	return filepath.Join(cp[0], rel)
}

func workDirOr() string {
	if workDir != "" {
		return workDir
	}
	return "/verif/work"
}

// depModFile writes an alternative go.mod (and go.sum) that replaces the copied dependencies.
func depModFile(repoDir string) string {
	if len(depCopies) == 0 {
		return ""
	}
	b, err := os.ReadFile(filepath.Join(repoDir, "go.mod"))
	if err != nil {
		return ""
	}
	var sb strings.Builder
	sb.Write(b)
	sb.WriteString("\n")
	for modP, cp := range depCopies {
		fmt.Fprintf(&sb, "replace %s => %s\n", modP, cp[0])
	}
	mf := filepath.Join(workDirOr(), "go.verif.mod")
	os.MkdirAll(workDirOr(), 0o755)
	os.WriteFile(mf, []byte(sb.String()), 0o644)
	if sum, err := os.ReadFile(filepath.Join(repoDir, "go.sum")); err == nil {
		os.WriteFile(filepath.Join(workDirOr(), "go.verif.sum"), sum, 0o644)
	}
	return mf
}
