package main

// Symbolic values and the typed field-array memory model.

import (
	"fmt"
	"go/types"
	"strings"

	"golang.org/x/tools/go/ssa"
)

type VKind int

const (
	KScalar VKind = iota // ints, bool, float (Real)
	KSlice
	KString
	KPtr
	KIface
	KStruct
	KTuple
	KArray // array value: T is (Array BV64 elem) for scalar elems; Fields otherwise
	KMap
	KFunc
	KOpaque // chan etc.
)

type SVal struct {
	K                   VKind
	Typ                 types.Type
	T                   *Term
	Base, Off, Len, Cap *Term
	Tag                 *Term
	Fields              []*SVal
	Addr                *Addr
	Dyn                 types.Type
	Inner               *SVal
	Fn                  *ssa.Function
	Bind                []*SVal
	Rat                 *ratVal // exact rational view of a float value: Num/Den
	Str                 *string // constant strings: the literal
}

// ratVal: a float64 value known to equal Num/Den exactly (Num signed 64-bit, Den > 0 constant).
type ratVal struct {
	Num *Term
	Den int64
}

// Addr is a syntactically resolved memory location.
type Addr struct {
	Typ    types.Type // pointee type
	Ref    *Term      // Ref naming this location (always set)
	Prefix string     // location class prefix for leaf locations
	Idx    *Term      // Ref index into the class array
	Elem   *Term      // BV64 element index (mem: classes)
	Leaf   bool       // a scalar field inside a struct (not representable by Ref alone)
	Box    bool       // inside a value boxed in an interface (immutable)
}

var BV64 = BV(64)
var BV8 = BV(8)

func isScalarBasic(t types.Type) bool {
	b, ok := t.Underlying().(*types.Basic)
	if !ok {
		return false
	}
	return b.Info()&(types.IsBoolean|types.IsInteger|types.IsFloat) != 0 || b.Kind() == types.UnsafePointer
}

func scalarSort(t types.Type) *Sort {
	b := t.Underlying().(*types.Basic)
	switch {
	case b.Info()&types.IsBoolean != 0:
		return BoolS
	case b.Info()&types.IsFloat != 0:
		return RealS
	}
	return BV(intWidth(b))
}

func intWidth(b *types.Basic) int {
	switch b.Kind() {
	case types.Int8, types.Uint8:
		return 8
	case types.Int16, types.Uint16:
		return 16
	case types.Int32, types.Uint32:
		return 32
	case types.UntypedRune:
		return 32
	}
	return 64
}

func isSigned(t types.Type) bool {
	b, ok := t.Underlying().(*types.Basic)
	if !ok {
		return false
	}
	return b.Info()&types.IsInteger != 0 && b.Info()&types.IsUnsigned == 0
}

func isString(t types.Type) bool {
	b, ok := t.Underlying().(*types.Basic)
	return ok && b.Info()&types.IsString != 0
}

func kindOf(t types.Type) VKind {
	switch u := t.Underlying().(type) {
	case *types.Basic:
		if u.Info()&types.IsString != 0 {
			return KString
		}
		if u.Kind() == types.UntypedNil {
			return KOpaque
		}
		return KScalar
	case *types.Slice:
		return KSlice
	case *types.Pointer:
		return KPtr
	case *types.Interface:
		return KIface
	case *types.Struct:
		return KStruct
	case *types.Tuple:
		return KTuple
	case *types.Array:
		return KArray
	case *types.Map:
		return KMap
	case *types.Signature:
		return KFunc
	}
	return KOpaque
}

// typeKey is a short stable name for a type, used in location class names.
func typeKey(t types.Type) string {
	s := types.TypeString(t, func(p *types.Package) string {
		path := p.Path()
		path = strings.TrimPrefix(path, modPath+"/pkg/")
		path = strings.TrimPrefix(path, modPath+"/internal/pkg/")
		if path == modPath {
			return "bmc"
		}
		if k := strings.LastIndex(path, "/"); k >= 0 && !strings.HasPrefix(path, "ipmi") && !strings.HasPrefix(path, "dcmi") {
			path = path[k+1:]
		}
		return path
	})
	return s
}

func elemClass(e types.Type) string {
	if isScalarBasic(e) {
		b := e.Underlying().(*types.Basic)
		if b.Info()&types.IsBoolean != 0 {
			return "mem:bool"
		}
		if b.Info()&types.IsFloat != 0 {
			return "mem:real"
		}
		return fmt.Sprintf("mem:bv%d", intWidth(b))
	}
	return ""
}

// ---- encoder-level helpers ----------------------------------------------------

type State struct {
	m     map[string]*Term
	epoch int
}

func (s *State) clone() *State {
	n := &State{m: make(map[string]*Term, len(s.m)), epoch: s.epoch}
	for k, v := range s.m {
		n.m[k] = v
	}
	return n
}

func (e *Encoder) classSort(class string, s *Sort) {
	if old, ok := e.sorts[class]; ok {
		if old != s {
			panic(fmt.Sprintf("class %s used at sorts %s and %s", class, old, s))
		}
		return
	}
	e.sorts[class] = s
}

func (e *Encoder) get(st *State, class string, s *Sort) *Term {
	e.classSort(class, s)
	if t, ok := st.m[class]; ok {
		return t
	}
	ep := st.epoch
	if immutableClass(class) {
		ep = 0 // never havocked: one symbol for the whole execution
	}
	t := e.c.Sym(fmt.Sprintf("H%d.%s", ep, class), s)
	st.m[class] = t
	return t
}

// immutableClass: values boxed in interfaces and string contents never change.
func immutableClass(class string) bool {
	return strings.HasPrefix(class, "box:") || class == "mem:str"
}

func (e *Encoder) set(st *State, class string, t *Term) {
	e.classSort(class, t.S)
	st.m[class] = t
}

// componentSuffixes lists the SMT components a leaf value of type t is made of.
type comp struct {
	suffix string
	sort   *Sort
}

func leafComps(t types.Type) []comp {
	switch kindOf(t) {
	case KScalar:
		return []comp{{"", scalarSort(t)}}
	case KSlice:
		return []comp{{"#base", RefS}, {"#off", BV64}, {"#len", BV64}, {"#cap", BV64}}
	case KString:
		return []comp{{"#base", RefS}, {"#off", BV64}, {"#len", BV64}}
	case KPtr, KMap, KOpaque:
		return []comp{{"", RefS}}
	case KIface:
		return []comp{{"#tag", IntS}, {"#ref", RefS}}
	case KFunc:
		return []comp{{"#fn", IntS}, {"#ref", RefS}}
	}
	panic("leafComps: not a leaf type " + t.String())
}

func (v *SVal) comps() []*Term {
	switch v.K {
	case KScalar, KPtr, KMap, KOpaque:
		return []*Term{v.T}
	case KSlice:
		return []*Term{v.Base, v.Off, v.Len, v.Cap}
	case KString:
		return []*Term{v.Base, v.Off, v.Len}
	case KIface:
		return []*Term{v.Tag, v.T}
	case KFunc:
		return []*Term{v.Tag, v.T}
	}
	panic("comps of aggregate")
}

func fromComps(t types.Type, cs []*Term) *SVal {
	v := &SVal{K: kindOf(t), Typ: t}
	switch v.K {
	case KScalar, KPtr, KMap, KOpaque:
		v.T = cs[0]
	case KSlice:
		v.Base, v.Off, v.Len, v.Cap = cs[0], cs[1], cs[2], cs[3]
	case KString:
		v.Base, v.Off, v.Len = cs[0], cs[1], cs[2]
	case KIface, KFunc:
		v.Tag, v.T = cs[0], cs[1]
	}
	return v
}

func isAggregate(t types.Type) bool {
	k := kindOf(t)
	return k == KStruct || k == KArray
}

func structKey(t types.Type) string { return typeKey(t) }

// fieldAddr computes the address of field i of the struct at ref.
func (e *Encoder) fieldAddr(ref *Term, st types.Type, i int) *Addr {
	s := st.Underlying().(*types.Struct)
	f := s.Field(i)
	a := &Addr{Typ: f.Type(), Ref: e.c.Sub(ref, i)}
	if !isAggregate(f.Type()) {
		a.Prefix = structKey(st) + "." + f.Name()
		a.Idx = ref
		a.Leaf = true
	}
	return a
}

// cellAddr treats ref as the location of a stand-alone variable of type t.
func (e *Encoder) cellAddr(ref *Term, t types.Type) *Addr {
	a := &Addr{Typ: t, Ref: ref}
	if !isAggregate(t) {
		a.Prefix = "cell:" + typeKey(t)
		a.Idx = ref
	}
	return a
}

// boxAddr: the immutable cell holding a non-pointer value boxed in an interface.
func (e *Encoder) boxAddr(ref *Term, t types.Type) *Addr {
	a := &Addr{Typ: t, Ref: ref, Box: true}
	if !isAggregate(t) {
		a.Prefix = "box:" + typeKey(t)
		a.Idx = ref
	}
	return a
}

// boxField: the fields of a struct boxed in an interface are immutable too.
func (e *Encoder) boxField(parent, child *Addr) *Addr {
	if parent.Box {
		child.Box = true
		if child.Prefix != "" {
			child.Prefix = "box:" + child.Prefix
		}
	}
	return child
}

// elemAddr: address of element i of the sequence stored at base (elements of type et).
func (e *Encoder) elemAddr(base *Term, i *Term, et types.Type) *Addr {
	if cls := elemClass(et); cls != "" {
		return &Addr{Typ: et, Ref: e.c.Idx(base, i), Prefix: cls, Idx: base, Elem: i}
	}
	r := e.c.Idx(base, i)
	return e.cellAddr(r, et)
}

func (e *Encoder) addrOf(p *SVal) *Addr {
	if p.Addr != nil {
		return p.Addr
	}
	pt := p.Typ.Underlying().(*types.Pointer)
	return e.cellAddr(p.T, pt.Elem())
}

func (e *Encoder) ptrTo(a *Addr) *SVal {
	return &SVal{K: KPtr, Typ: types.NewPointer(a.Typ), T: a.Ref, Addr: a}
}

func (e *Encoder) loadLeaf(st *State, a *Addr) *SVal {
	cs := leafComps(a.Typ)
	ts := make([]*Term, len(cs))
	for k, cp := range cs {
		if a.Elem != nil {
			arr := e.get(st, a.Prefix+cp.suffix, Arr(RefS, Arr(BV64, cp.sort)))
			ts[k] = e.c.Select(e.c.Select(arr, a.Idx), a.Elem)
		} else {
			arr := e.get(st, a.Prefix+cp.suffix, Arr(RefS, cp.sort))
			ts[k] = e.c.Select(arr, a.Idx)
		}
	}
	v := fromComps(a.Typ, ts)
	e.typeInvariant(v)
	return v
}

func (e *Encoder) storeLeaf(st *State, a *Addr, v *SVal) {
	cs := leafComps(a.Typ)
	vs := v.comps()
	if len(vs) != len(cs) {
		panic(fmt.Sprintf("storeLeaf: %s components mismatch for %s", a.Prefix, a.Typ))
	}
	for k, cp := range cs {
		val := vs[k]
		if val.S != cp.sort {
			panic(fmt.Sprintf("storeLeaf %s%s: sort %s vs %s", a.Prefix, cp.suffix, val.S, cp.sort))
		}
		if a.Elem != nil {
			arr := e.get(st, a.Prefix+cp.suffix, Arr(RefS, Arr(BV64, cp.sort)))
			inner := e.c.Select(arr, a.Idx)
			e.set(st, a.Prefix+cp.suffix, e.c.Store(arr, a.Idx, e.c.Store(inner, a.Elem, val)))
		} else {
			arr := e.get(st, a.Prefix+cp.suffix, Arr(RefS, cp.sort))
			e.set(st, a.Prefix+cp.suffix, e.c.Store(arr, a.Idx, val))
		}
	}
}

func (e *Encoder) load(st *State, a *Addr) *SVal {
	switch u := a.Typ.Underlying().(type) {
	case *types.Struct:
		v := &SVal{K: KStruct, Typ: a.Typ}
		for i := 0; i < u.NumFields(); i++ {
			v.Fields = append(v.Fields, e.load(st, e.boxField(a, e.fieldAddr(a.Ref, a.Typ, i))))
		}
		return v
	case *types.Array:
		if cls := elemClass(u.Elem()); cls != "" {
			arr := e.get(st, cls, Arr(RefS, Arr(BV64, scalarSort(u.Elem()))))
			return &SVal{K: KArray, Typ: a.Typ, T: e.c.Select(arr, a.Ref)}
		}
		v := &SVal{K: KArray, Typ: a.Typ}
		if u.Len() > 64 {
			panic("load of large non-scalar array")
		}
		for i := int64(0); i < u.Len(); i++ {
			v.Fields = append(v.Fields, e.load(st, e.elemAddr(a.Ref, e.c.BVLit(uint64(i), 64), u.Elem())))
		}
		return v
	}
	return e.loadLeaf(st, a)
}

func (e *Encoder) store(st *State, a *Addr, v *SVal) {
	switch u := a.Typ.Underlying().(type) {
	case *types.Struct:
		if v.K != KStruct || len(v.Fields) != u.NumFields() {
			panic("store struct: value shape mismatch for " + a.Typ.String())
		}
		for i := 0; i < u.NumFields(); i++ {
			e.store(st, e.boxField(a, e.fieldAddr(a.Ref, a.Typ, i)), v.Fields[i])
		}
		return
	case *types.Array:
		if cls := elemClass(u.Elem()); cls != "" {
			arr := e.get(st, cls, Arr(RefS, Arr(BV64, scalarSort(u.Elem()))))
			e.set(st, cls, e.c.Store(arr, a.Ref, v.T))
			return
		}
		for i := int64(0); i < u.Len(); i++ {
			e.store(st, e.elemAddr(a.Ref, e.c.BVLit(uint64(i), 64), u.Elem()), v.Fields[i])
		}
		return
	}
	e.storeLeaf(st, a, v)
}

// zero value of a type
func (e *Encoder) zero(t types.Type) *SVal {
	c := e.c
	v := &SVal{K: kindOf(t), Typ: t}
	switch u := t.Underlying().(type) {
	case *types.Struct:
		for i := 0; i < u.NumFields(); i++ {
			v.Fields = append(v.Fields, e.zero(u.Field(i).Type()))
		}
		return v
	case *types.Array:
		if elemClass(u.Elem()) != "" {
			s := scalarSort(u.Elem())
			var z *Term
			switch s.K {
			case SBool:
				z = c.False()
			case SReal:
				z = c.RealLit("0.0")
			default:
				z = c.BVLit(0, s.W)
			}
			v.T = c.ConstArr(Arr(BV64, s), z)
			return v
		}
		for i := int64(0); i < u.Len(); i++ {
			v.Fields = append(v.Fields, e.zero(u.Elem()))
		}
		return v
	case *types.Tuple:
		for i := 0; i < u.Len(); i++ {
			v.Fields = append(v.Fields, e.zero(u.At(i).Type()))
		}
		return v
	}
	switch v.K {
	case KScalar:
		s := scalarSort(t)
		switch s.K {
		case SBool:
			v.T = c.False()
		case SReal:
			v.T = c.RealLit("0.0")
		default:
			v.T = c.BVLit(0, s.W)
		}
	case KSlice:
		v.Base, v.Off, v.Len, v.Cap = c.NilRef(), c.BVLit(0, 64), c.BVLit(0, 64), c.BVLit(0, 64)
	case KString:
		v.Base, v.Off, v.Len = c.NilRef(), c.BVLit(0, 64), c.BVLit(0, 64)
	case KPtr, KMap, KOpaque:
		v.T = c.NilRef()
	case KIface, KFunc:
		v.Tag, v.T = c.Int(0), c.NilRef()
	}
	return v
}

// fresh symbolic value of a type
func (e *Encoder) freshVal(prefix string, t types.Type) *SVal {
	c := e.c
	v := &SVal{K: kindOf(t), Typ: t}
	switch u := t.Underlying().(type) {
	case *types.Struct:
		for i := 0; i < u.NumFields(); i++ {
			v.Fields = append(v.Fields, e.freshVal(prefix+"."+u.Field(i).Name(), u.Field(i).Type()))
		}
		return v
	case *types.Array:
		if elemClass(u.Elem()) != "" {
			v.T = c.Fresh(prefix, Arr(BV64, scalarSort(u.Elem())))
			return v
		}
		for i := int64(0); i < u.Len(); i++ {
			v.Fields = append(v.Fields, e.freshVal(fmt.Sprintf("%s.%d", prefix, i), u.Elem()))
		}
		return v
	case *types.Tuple:
		for i := 0; i < u.Len(); i++ {
			v.Fields = append(v.Fields, e.freshVal(fmt.Sprintf("%s.%d", prefix, i), u.At(i).Type()))
		}
		return v
	}
	switch v.K {
	case KScalar:
		v.T = c.Fresh(prefix, scalarSort(t))
	case KSlice:
		v.Base, v.Off, v.Len, v.Cap = c.Fresh(prefix+".base", RefS), c.Fresh(prefix+".off", BV64), c.Fresh(prefix+".len", BV64), c.Fresh(prefix+".cap", BV64)
	case KString:
		v.Base, v.Off, v.Len = c.Fresh(prefix+".base", RefS), c.Fresh(prefix+".off", BV64), c.Fresh(prefix+".len", BV64)
	case KPtr, KMap, KOpaque:
		v.T = c.Fresh(prefix, RefS)
	case KIface, KFunc:
		v.Tag, v.T = c.Fresh(prefix+".tag", IntS), c.Fresh(prefix+".ref", RefS)
	}
	e.typeInvariant(v)
	return v
}

// named (non-fresh) symbolic value, for function inputs
func (e *Encoder) symVal(name string, t types.Type) *SVal {
	c := e.c
	v := &SVal{K: kindOf(t), Typ: t}
	switch u := t.Underlying().(type) {
	case *types.Struct:
		for i := 0; i < u.NumFields(); i++ {
			v.Fields = append(v.Fields, e.symVal(name+"."+u.Field(i).Name(), u.Field(i).Type()))
		}
		return v
	case *types.Array:
		if elemClass(u.Elem()) != "" {
			v.T = c.Sym(name, Arr(BV64, scalarSort(u.Elem())))
			return v
		}
		for i := int64(0); i < u.Len(); i++ {
			v.Fields = append(v.Fields, e.symVal(fmt.Sprintf("%s.%d", name, i), u.Elem()))
		}
		return v
	}
	switch v.K {
	case KScalar:
		v.T = c.Sym(name, scalarSort(t))
	case KSlice:
		v.Base, v.Off, v.Len, v.Cap = c.Sym(name+".base", RefS), c.Sym(name+".off", BV64), c.Sym(name+".len", BV64), c.Sym(name+".cap", BV64)
		e.inputObject(v.Base)
	case KString:
		v.Base, v.Off, v.Len = c.Sym(name+".base", RefS), c.Sym(name+".off", BV64), c.Sym(name+".len", BV64)
		e.inputObject(v.Base)
	case KPtr, KMap, KOpaque:
		v.T = c.Sym(name, RefS)
	case KIface, KFunc:
		v.Tag, v.T = c.Sym(name+".tag", IntS), c.Sym(name+".ref", RefS)
	}
	e.typeInvariant(v)
	return v
}

const maxLenBits = 40

// typeInvariant records the Go type invariants of a freshly introduced value
// (0 <= len <= cap <= 2^40 and off+cap does not wrap) as an assumption.
func (e *Encoder) typeInvariant(v *SVal) {
	if e.initMode {
		return
	}
	c := e.c
	lim := c.BVLit(1<<maxLenBits, 64)
	// anything that existed when the function was entered has an object identity below A0;
	// objects allocated by this invocation are root(A0+k)
	old := func(t *Term) {
		if t == nil || t.S != RefS || t.Op == "nilref" || t.Op == "root" || t.Op == "sub" || t.Op == "idx" || !c.preExisting(t) {
			return
		}
		depth := 0
		if e.deepPre {
			depth = 4 // parameters: also interior pointers lie in objects that existed at entry
		}
		f := c.PreExisting(t, e.A0, depth)
		if !e.tiFacts[f] {
			e.tiFacts[f] = true
			e.assumeFact(f)
		}
	}
	switch v.K {
	case KPtr, KMap, KIface:
		old(v.T)
	}
	switch v.K {
	case KSlice:
		old(v.Base)
		if v.Len.IsLit() && v.Cap.IsLit() && v.Off.IsLit() {
			return
		}
		f := c.And(c.BVCmp("bvule", v.Len, v.Cap), c.BVCmp("bvule", v.Cap, lim), c.BVCmp("bvule", v.Off, lim))
		if v.Base != nil && v.Base.Op != "root" {
			// a nil slice has no elements
			f = c.And(f, c.Or(c.Not(c.Eq(v.Base, c.NilRef())), c.Eq(v.Cap, c.BVLit(0, 64))))
		}
		e.tiFacts[f] = true
		e.assumeFact(f)
	case KString:
		old(v.Base)
		if v.Len.IsLit() && v.Off.IsLit() {
			return
		}
		f := c.And(c.BVCmp("bvule", v.Len, lim), c.BVCmp("bvule", v.Off, lim))
		e.tiFacts[f] = true
		e.assumeFact(f)
	}
}

// iteVal merges two values of the same type.
func (e *Encoder) iteVal(cnd *Term, a, b *SVal) *SVal {
	if a == b {
		return a
	}
	c := e.c
	if a.K != b.K {
		// nil constants against typed values
		if a.K == KOpaque {
			a = e.zero(b.Typ)
		} else if b.K == KOpaque {
			b = e.zero(a.Typ)
		} else {
			panic(fmt.Sprintf("iteVal kind mismatch %v vs %v (%s / %s)", a.K, b.K, a.Typ, b.Typ))
		}
	}
	v := &SVal{K: a.K, Typ: a.Typ}
	switch a.K {
	case KStruct, KTuple:
		for i := range a.Fields {
			v.Fields = append(v.Fields, e.iteVal(cnd, a.Fields[i], b.Fields[i]))
		}
	case KArray:
		if a.T != nil {
			v.T = c.Ite(cnd, a.T, b.T)
		} else {
			for i := range a.Fields {
				v.Fields = append(v.Fields, e.iteVal(cnd, a.Fields[i], b.Fields[i]))
			}
		}
	case KScalar, KPtr, KMap, KOpaque:
		v.T = c.Ite(cnd, a.T, b.T)
		if a.K == KPtr && a.Addr != nil && b.Addr != nil && a.Addr.Leaf && b.Addr.Leaf && a.Addr.Prefix == b.Addr.Prefix && a.Addr.Elem == nil && b.Addr.Elem == nil {
			v.Addr = &Addr{Typ: a.Addr.Typ, Ref: v.T, Prefix: a.Addr.Prefix, Idx: c.Ite(cnd, a.Addr.Idx, b.Addr.Idx), Leaf: true}
		} else if a.K == KPtr && ((a.Addr != nil && a.Addr.Leaf) || (b.Addr != nil && b.Addr.Leaf)) && a.T != b.T {
			e.subsetWarn("pointer to a struct leaf field flows through a merge")
		} else if a.K == KPtr && a.T == b.T {
			v.Addr = a.Addr
		}
	case KSlice:
		v.Base, v.Off, v.Len, v.Cap = c.Ite(cnd, a.Base, b.Base), c.Ite(cnd, a.Off, b.Off), c.Ite(cnd, a.Len, b.Len), c.Ite(cnd, a.Cap, b.Cap)
	case KString:
		v.Base, v.Off, v.Len = c.Ite(cnd, a.Base, b.Base), c.Ite(cnd, a.Off, b.Off), c.Ite(cnd, a.Len, b.Len)
	case KIface, KFunc:
		v.Tag, v.T = c.Ite(cnd, a.Tag, b.Tag), c.Ite(cnd, a.T, b.T)
		if a.Dyn != nil && b.Dyn != nil && types.Identical(a.Dyn, b.Dyn) {
			v.Dyn = a.Dyn
		}
		if a.Fn != nil && a.Fn == b.Fn {
			v.Fn = a.Fn
			v.Bind = a.Bind
		}
	}
	return v
}

// eqVal: structural equality of two values (Go ==)
func (e *Encoder) eqVal(a, b *SVal) *Term {
	c := e.c
	if a.K == KOpaque && b.K != KOpaque {
		a = e.zero(b.Typ)
	}
	if b.K == KOpaque && a.K != KOpaque {
		b = e.zero(a.Typ)
	}
	switch a.K {
	case KScalar, KPtr, KMap, KOpaque:
		return c.Eq(a.T, b.T)
	case KStruct, KTuple:
		var cs []*Term
		for i := range a.Fields {
			cs = append(cs, e.eqVal(a.Fields[i], b.Fields[i]))
		}
		return c.And(cs...)
	case KArray:
		if a.T != nil {
			n := a.Typ.Underlying().(*types.Array).Len()
			var cs []*Term
			for i := int64(0); i < n; i++ {
				k := c.BVLit(uint64(i), 64)
				cs = append(cs, c.Eq(c.Select(a.T, k), c.Select(b.T, k)))
			}
			return c.And(cs...)
		}
		var cs []*Term
		for i := range a.Fields {
			cs = append(cs, e.eqVal(a.Fields[i], b.Fields[i]))
		}
		return c.And(cs...)
	case KIface:
		// comparing against nil is the common case
		if b.Tag.Op == "int" && b.Tag.V == 0 {
			return c.Eq(a.Tag, c.Int(0))
		}
		if a.Tag.Op == "int" && a.Tag.V == 0 {
			return c.Eq(b.Tag, c.Int(0))
		}
		return c.And(c.Eq(a.Tag, b.Tag), c.Eq(a.T, b.T))
	case KSlice:
		// only comparison with nil is legal Go
		return c.Eq(a.Base, b.Base)
	case KFunc:
		// only comparison with nil is legal Go: a nil function value has tag 0
		if b.Tag != nil && b.Tag.Op == "int" && b.Tag.V == 0 {
			return c.Eq(a.Tag, c.Int(0))
		}
		if a.Tag != nil && a.Tag.Op == "int" && a.Tag.V == 0 {
			return c.Eq(b.Tag, c.Int(0))
		}
		return c.And(c.Eq(a.Tag, b.Tag), c.Eq(a.T, b.T))
	case KString:
		return e.stringEq(a, b)
	}
	panic("eqVal: unsupported kind")
}

func (e *Encoder) stringEq(a, b *SVal) *Term {
	c := e.c
	if a.Len.IsLit() && a.Len.V == 0 {
		return c.Eq(b.Len, a.Len)
	}
	if b.Len.IsLit() && b.Len.V == 0 {
		return c.Eq(a.Len, b.Len)
	}
	// same length and same bytes (quantified)
	st := e.cur
	mem := e.get(st, "mem:str", Arr(RefS, Arr(BV64, BV8)))
	k := c.Bound("k", BV64)
	body := c.Implies(c.BVCmp("bvult", k, a.Len), c.Eq(c.Select(c.Select(mem, a.Base), c.BVBin("bvadd", a.Off, k)), c.Select(c.Select(mem, b.Base), c.BVBin("bvadd", b.Off, k))))
	return c.And(c.Eq(a.Len, b.Len), c.Forall([]*Term{k}, body))
}

// inputObject: the backing array of an input slice/string is nil or a whole
// object that existed before the call and was not created by a package
// initialiser (ids in [0, A0)). Stated assumption; it is what the syntactic
// disjointness rules of the simplifier rely on.
func (e *Encoder) inputObject(base *Term) {
	c := e.c
	id := c.RootID(base)
	e.assumeFact(c.Or(c.Eq(base, c.NilRef()), c.And(c.IsRoot(base), c.IntLe(c.Int(0), id), c.IntLt(id, e.A0))))
}

// byteClass: strings are immutable and live in their own memory class, so that
// no []byte buffer can alias string contents.
func byteClass(v *SVal) string {
	if v.K == KString {
		return "mem:str"
	}
	return "mem:bv8"
}
