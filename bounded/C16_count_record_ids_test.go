package dcmi

// Bounded stand-in (NOT a proof) for the assumed contract of (sensorMap).CountRecordIDs:
//
//	result == mapLenSum(m)   where mapLenSum is non-negative and positive exactly when some entry is non-empty
//
// The engine cannot fold over an unordered map, so the contract is trusted at the call site in
// GetSensorInfo; this test checks the real function exhaustively for every map over the key universe
// {0x03, 0x07, 0x37, 0x40} (each key absent, or present with 0..3 record IDs, nil and empty slices
// both tried): 6^4 = 1296 maps. Run by `bmcvc check C16` through go test -overlay.

import (
	"fmt"
	"testing"

	"github.com/gebn/bmc/pkg/ipmi"
)

func TestVerifBounded(t *testing.T) {
	keys := []ipmi.EntityID{0x03, 0x07, 0x37, 0x40}
	// per key: 0 absent, 1 nil slice, 2 empty non-nil slice, 3..5 one to three record IDs
	choice := make([]int, len(keys))
	cases := 0
	for {
		m := sensorMap{}
		want := 0
		for i, k := range keys {
			switch c := choice[i]; {
			case c == 1:
				m[k] = nil
			case c == 2:
				m[k] = []ipmi.RecordID{}
			case c >= 3:
				m[k] = make([]ipmi.RecordID, c-2)
				want += c - 2
			}
		}
		got := m.CountRecordIDs()
		cases++
		if got != want || got < 0 || (got > 0) != (want > 0) {
			fmt.Printf("BOUNDED-FAIL: CountRecordIDs() = %d for the map %v, want %d\n", got, m, want)
			t.FailNow()
		}
		i := 0
		for ; i < len(choice); i++ {
			choice[i]++
			if choice[i] < 6 {
				break
			}
			choice[i] = 0
		}
		if i == len(choice) {
			break
		}
	}
	fmt.Printf("BOUNDED-OK: cases=%d\n", cases)
}
