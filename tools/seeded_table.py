#!/usr/bin/env python3
# Regenerates the table of DESIGN.md 14.6 from seeded/*/meta.json (first-run misses) and the last
# selftest log (work/selftest.log: which changes were reported with a confirmed replay).
import json, glob, os, re, sys
log = open('/verif/work/selftest.log').read() if os.path.exists('/verif/work/selftest.log') else ''
conf = {}
for m in re.finditer(r'^ok\s+seeded-(C\d+-m\d+) -> \S+ violation detected \((\d+) obligations, (\d+) with a confirmed replay\)', log, re.M):
    conf[m.group(1)] = int(m.group(3))
rows = {}
for d in sorted(glob.glob('/verif/seeded/C*')):
    n = os.path.basename(d); p = n.split('-')[0]
    m = json.load(open(d + '/meta.json'))
    r = rows.setdefault(p, [0, 0, 0])
    r[0] += 1
    res = m['result']
    if 'MISS' in res.split('.')[0].upper() or res.lower().startswith('first run:') or re.search(r'\bmissed (before|until)\b', res, re.I):
        r[1] += 1
    if conf.get(n, 0) > 0:
        r[2] += 1
out = ['| property | changes | missed at first run (then closed) | reported with a replay confirmed on the real code |', '|---|---|---|---|']
t = [0, 0, 0]
for p in sorted(rows):
    r = rows[p]
    out.append('| %s | %d | %d | %d |' % (p, r[0], r[1], r[2]))
    for i in range(3): t[i] += r[i]
out.append('| total | %d | %d | %d |' % tuple(t))
txt = '\n'.join(out)
if len(sys.argv) > 1 and sys.argv[1] == '-write':
    s = open('/verif/DESIGN.md').read()
    a = s.index('| property | changes | missed at first run')
    b = s.index('\n\n', a)
    s = s[:a] + txt + s[b:]
    open('/verif/DESIGN.md', 'w').write(s)
print(txt)
