#!/bin/bash
# Must-fail corpus: every canary patch (reverse of a fix: commit) and every kept seeded change must make
# the named property's check report a VIOLATION. Each is applied to a scratch copy of /repo's working
# tree (under /tmp, removed afterwards), several at a time; /repo itself is not touched.
# usage: tools/selftest.sh [name-substring]      (WORKERS=n to change the parallelism, default 4)
cd /verif
export GOFLAGS=-mod=mod GOPROXY=off GOSUMDB=off GOTOOLCHAIN=local
mkdir -p /verif/work
W=${WORKERS:-4}
base=/tmp/bmc-selftest.$$
trap 'rm -rf $base' EXIT
mkdir -p $base
fail=0
if [ -z "$1" ]; then
  # the scripted-peer replay oracle itself: hand-picked scripts against the current (unchanged) tree
  if ./bin/bmcvc replaycheck > /verif/work/replaycheck.out 2>&1; then echo "ok   replay oracle check ($(grep -c '^ok' /verif/work/replaycheck.out) cases)"; else echo "MISS replay oracle check"; cat /verif/work/replaycheck.out; fail=1; fi
fi
python3 - "$1" <<'PY' > $base/list
import json,sys,os,glob
pat=sys.argv[1] if len(sys.argv)>1 else ''
for e in json.load(open('/verif/selftest/canaries/index.json')):
    if pat in e['name']: print(e['name'],e['property'],'/verif/selftest/canaries/%s.diff'%e['name'])
for d in sorted(glob.glob('/verif/seeded/*')):
    m=json.load(open(d+'/meta.json'))
    n=os.path.basename(d)
    if pat in n: print('seeded-'+n,m['property'],d+'/patch.diff')
PY
run() { # name prop patch
  d=$base/w.$BASHPID
  rm -rf $d; mkdir -p $d/repo $d/out
  rsync -a --exclude .git /repo/ $d/repo/
  if ! (cd $d/repo && patch -p1 -s --dry-run < "$3") >/dev/null 2>&1; then echo "SKIP $1 (patch does not apply to the current tree)"; rm -rf $d; return; fi
  (cd $d/repo && patch -p1 -s < "$3")
  out=$(/verif/bin/bmcvc check --tier quick --timeout 20s -repo $d/repo -out $d/out "$2" 2>&1); rc=$?
  if [ $rc -eq 1 ] && echo "$out" | grep -q "^VIOLATION property=$2"; then
    echo "ok   $1 -> $2 violation detected ($(echo "$out" | grep -c '^VIOLATION') obligations, $(echo "$out" | grep '^VIOLATION' | grep -vc 'no-failing-input-found') with a confirmed replay)"
  else
    echo "MISS $1 -> $2 exit=$rc"
  fi
  rm -rf $d
}
export -f run; export base
xargs -P $W -L 1 bash -c 'run "$0" "$1" "$2"' < $base/list | tee $base/results
grep -q '^MISS' $base/results && fail=1
echo "selftest: $(grep -c '^ok' $base/results) detected, $(grep -c '^MISS' $base/results) missed, $(grep -c '^SKIP' $base/results) skipped"
exit $fail
