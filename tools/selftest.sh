#!/bin/bash
# Must-fail corpus: every canary patch (reverse of a fix: commit, or a kept seeded mutant) must make
# the named property's check report a VIOLATION; the unpatched tree must report none.
# usage: tools/selftest.sh [name-substring]
cd /verif
mkdir -p /verif/work
fail=0
if [ -z "$1" ]; then
  # the scripted-peer replay oracle itself: hand-picked scripts against the current (unchanged) tree
  if ./bin/bmcvc replaycheck > /verif/work/replaycheck.out 2>&1; then echo "ok   replay oracle check ($(grep -c '^ok' /verif/work/replaycheck.out) cases)"; else echo "MISS replay oracle check"; cat /verif/work/replaycheck.out; fail=1; fi
fi
run() { # name prop patch
  if ! git -C /repo apply --check "$3" 2>/dev/null; then echo "SKIP $1 (patch does not apply to the current tree)"; return; fi
  git -C /repo apply "$3"
  out=$(./check "$2" quick 2>&1); rc=$?
  git -C /repo checkout -- .
  if [ $rc -eq 1 ] && echo "$out" | grep -q "^VIOLATION property=$2"; then echo "ok   $1 -> $2 violation detected ($(echo "$out" | grep -c '^VIOLATION') obligations, $(echo "$out" | grep '^VIOLATION' | grep -vc 'no-failing-input-found') with a confirmed replay)"; else echo "MISS $1 -> $2 exit=$rc"; fail=1; fi
}
python3 - "$1" <<'PY' > /verif/work/selftest.list
import json,sys,os,glob
pat=sys.argv[1] if len(sys.argv)>1 else ''
for e in json.load(open('/verif/selftest/canaries/index.json')):
    if pat in e['name']: print(e['name'],e['property'],'/verif/selftest/canaries/%s.diff'%e['name'])
for d in sorted(glob.glob('/verif/seeded/*')):
    m=json.load(open(d+'/meta.json'))
    n=os.path.basename(d)
    if pat in n: print('seeded-'+n,m['property'],d+'/patch.diff')
PY
while read n p f; do run "$n" "$p" "$f"; done < /verif/work/selftest.list
exit $fail
