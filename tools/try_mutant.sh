#!/bin/bash
# usage: try_mutant.sh <mutant dir with patch.diff, demo_test.go> <scratch worktree> <property>...
# 1. confirms in the scratch worktree: builds, existing tests pass, demo fails with / passes without the patch
# 2. applies the patch to a scratch copy of /repo (under /tmp, removed afterwards) and runs the given checks on it
export GOFLAGS=-mod=mod GOPROXY=off GOSUMDB=off GOTOOLCHAIN=local
m="$1"; wt="$2"; shift 2
pkgdir=$(grep -o -m1 'pkg/[a-z]*\|internal/pkg/[a-z]*\|package directory[^a-z]*[a-z/]*' "$m/demo_test.go" | head -1)
pkgline=$(head -12 "$m/demo_test.go" | grep -o -m1 '\(pkg\|internal/pkg\)/[a-z]*' | head -1)
[ -z "$pkgline" ] && pkgline="."
pkgname=$(grep -m1 '^package ' "$m/demo_test.go" | awk '{print $2}')
[ "$pkgname" = bmc ] && pkgline="."
cd "$wt" && git checkout -q -- . && git clean -qfd -e out >/dev/null
echo "== confirm in $wt (demo in $pkgline)"
cp "$m/demo_test.go" "$wt/$pkgline/zz_demo_test.go"
if go test -vet=off -count=1 -timeout 120s -run . ./$pkgline >/tmp/mut_demo_clean.log 2>&1; then echo "demo passes without patch: yes"; else echo "demo passes without patch: NO"; tail -5 /tmp/mut_demo_clean.log; fi
git apply "$m/patch.diff" || { echo "patch does not apply"; exit 3; }
if go build ./... >/dev/null 2>&1; then echo "builds: yes"; else echo "builds: NO"; fi
if go test -vet=off -count=1 -timeout 120s -run . ./$pkgline >/tmp/mut_demo_patched.log 2>&1; then echo "demo fails with patch: NO"; else echo "demo fails with patch: yes"; fi
rm -f "$wt/$pkgline/zz_demo_test.go"
if go test -vet=off -count=1 -timeout 300s ./... >/tmp/mut_suite.log 2>&1; then echo "existing tests pass with patch: yes"; else echo "existing tests pass with patch: NO"; grep -v "^ok\|no test files" /tmp/mut_suite.log | head; fi
git checkout -q -- . && git clean -qfd -e out >/dev/null
echo "== run checks against a scratch copy of /repo with the patch applied"
d=/tmp/bmc-try.$$; rm -rf $d; mkdir -p $d/repo $d/out
rsync -a --exclude .git /repo/ $d/repo/
(cd $d/repo && patch -p1 -s < "$m/patch.diff") || { echo "patch does not apply to /repo"; rm -rf $d; exit 3; }
for p in "$@"; do
  out=$(/verif/bin/bmcvc check --tier quick --timeout 20s -repo $d/repo -out $d/out $p 2>&1); rc=$?
  echo "$out" | grep "^VIOLATION\|^$p:\|KNOWN-FINDING\|engine fault\|refuted\|no longer\|fails" | cut -c1-260
  echo "check $p exit=$rc"
done
rm -rf $d
