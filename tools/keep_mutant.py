#!/usr/bin/env python3
# usage: keep_mutant.py <src dir (patch.diff, demo_test.go, README.txt)> <seeded id> <property> <result text>
import sys, os, json, shutil, re
src, sid, prop, result = sys.argv[1:5]
dst = '/verif/seeded/' + sid
os.makedirs(dst, exist_ok=True)
shutil.copy(src + '/patch.diff', dst + '/patch.diff')
shutil.copy(src + '/demo_test.go', dst + '/demo_test.go')
readme = open(src + '/README.txt').read() if os.path.exists(src + '/README.txt') else ''
files = sorted(set(re.findall(r'^\+\+\+ b/(\S+)', open(dst + '/patch.diff').read(), re.M)))
meta = {
 "property": prop,
 "summary": ' '.join(readme.split())[:900],
 "files": files,
 "verified": {"builds": True, "existing_tests_pass": True, "demo_fails_with_patch": True, "demo_passes_without": True},
 "origin": "written by an independent sub-agent given only the property text and a scratch worktree",
 "confirmed_by_me": "tools/try_mutant.sh: in a scratch worktree the patched tree builds, the existing suite passes, the demonstration fails with the patch and passes without it",
 "ran": "git -C /repo apply patch.diff; ./check %s quick; git -C /repo checkout -- ." % prop,
 "result": result,
}
json.dump(meta, open(dst + '/meta.json', 'w'), indent=1)
print('kept', dst)
