#!/bin/bash
# usage: tools/mk_mutant_worktree.sh <property id> <suffix>
# creates a scratch worktree /tmp/mut-<id><suffix> of /repo's HEAD (contract files deleted there, so that a
# sub-agent sees nothing of the verification) and /tmp/prop-<id><suffix>.txt with the property's text only
set -e
id=$1; sfx=$2; wt=/tmp/mut-$id$sfx
git -C /repo worktree add --detach -f $wt HEAD >/dev/null 2>&1
find $wt -name 'zz_*_verif.go' -delete
mkdir -p $wt/out
python3 - $id $sfx <<'PY'
import json,sys
for l in open('/verif/properties.jsonl'):
    p=json.loads(l)
    if p['id']==sys.argv[1]:
        with open('/tmp/prop-%s%s.txt'%(sys.argv[1],sys.argv[2]),'w') as f:
            f.write('Property %s: %s\n\nStatement: %s\n\nQuantification: %s\n\nWhy tests cannot settle it: %s\n\nAnchors: %s\n' % (
                p['id'],p['title'],p['statement'],p['quantifier']['text'],p['why_tests_cant'],json.dumps(p['anchors'],indent=1)))
PY
echo $wt
