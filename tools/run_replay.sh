#!/bin/bash
# usage: tools/run_replay.sh <replay _test.go.txt> [package dir relative to /repo, default .]
# Runs a replay file written by bmcvc against /repo's current working tree (go test -overlay; nothing is written to /repo).
set -e
export GOFLAGS=-mod=mod GOPROXY=off GOSUMDB=off GOTOOLCHAIN=local
f=$(readlink -f "$1"); pkg=${2:-.}
d=$(mktemp -d /verif/work/replay.XXXXXX); trap 'rm -rf $d' EXIT
cp "$f" $d/zz_verif_replay_test.go
printf '{"Replace":{"%s":"%s"}}' "/repo/$pkg/zz_verif_replay_test.go" "$d/zz_verif_replay_test.go" > $d/ov.json
cd /repo/$pkg && go test -overlay $d/ov.json -tags verif -vet=off -timeout 60s -count=1 -run '^TestVerifReplay$' -v . 2>&1 | grep -v '^=== \|^--- \|^PASS\|^ok ' || true
