#!/bin/bash
# Runs a demonstration test file from /verif/findings against /repo's working tree without writing to it.
# usage: tools/run_finding.sh <file_test.go> [-run regexp]   (the file's package decides the directory)
set -e
export GOFLAGS=-mod=mod GOPROXY=off GOSUMDB=off GOTOOLCHAIN=local
f=$(readlink -f "$1"); shift
pkg=$(grep -m1 '^package ' "$f" | awk '{print $2}')
case "$pkg" in
  bmc) dir=/repo;;
  ipmi) dir=/repo/pkg/ipmi;;
  dcmi) dir=/repo/pkg/dcmi;;
  *) echo "unknown package $pkg"; exit 2;;
esac
ov=$(mktemp /verif/work/ov.XXXXXX.json)
trap 'rm -f "$ov"' EXIT
printf '{"Replace":{"%s/zz_finding_demo_test.go":"%s"}}' "$dir" "$f" > "$ov"
cd "$dir" && go test -overlay "$ov" -vet=off -count=1 -timeout 120s -run "${2:-TestFinding}" -v . 2>&1 | grep -v '^=== ' | tail -30
