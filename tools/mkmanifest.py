#!/usr/bin/env python3
# Regenerates /verif/MANIFEST.json from the table below (kept next to the design so the two stay in step).
import json,subprocess
HOOKS=[l.split()[0] for l in subprocess.run(['git','-C','/repo','log','--format=%h %s'],capture_output=True,text=True).stdout.splitlines() if 'verif hooks' in l]
props=[json.loads(l) for l in open('/verif/properties.jsonl')]
ids=[p['id'] for p in props]
TB="trusted: SMT solvers sound for unsat; Go compiler/runtime semantics as encoded (DESIGN.md s5); native models of dependency functions listed in the evidence file; lengths <= 2^40; non-nil non-aliasing pointer parameters"
claimed={
 'C20':dict(technique="contract-based deductive verification: postconditions equating each primitive with a mathematical spec function (pure Go, translated to SMT), loop invariants over uninterpreted folds, discharged by z3/cvc5 over the full bit-vector domains",
   text="Proof over entire domains (not enumeration): BCD, one's and two's complement (all widths 1..16), the three analog parsers, the IPMI checksum (sum of data plus checksum is 0 mod 256, any length), BCD-plus / packed 6-bit / 8-bit ID strings for every length 0..31 (character by character against independent spec functions, including the code's BCD-plus table as initialised by the package), DCMI rolling-average byte to duration and duration to byte (floor and exact round trip for every duration up to 2^53 ns), and the entity-instance split.",
   note=TB+"; math.Ceil/Floor of int/const quotients and time.Duration.Seconds/Minutes/Hours are modelled as exact rational arithmetic (float64 treated as real); string([]rune) is the identity on ASCII",ref="DESIGN.md s9 C20"),
 'C07':dict(technique="contract-based deductive verification: per-field postconditions (result == nil ==> field == byte-level spec of IPMI v2.0 / DCMI 1.5 tables) and exact accept/reject conditions on every response decoder, VCs from go/ssa, z3/cvc5; failed clauses replayed as in-package tests",
   text="Proof, for every byte string, that each response decoder of pkg/ipmi and pkg/dcmi (commands, SDR header, Full Sensor Record incl. all ID-string encodings and 10-bit/4-bit two's-complement factors, session wrappers, RMCP+ setup messages, DCMI capability layouts 1.0/1.1/1.5) accepts exactly the inputs long enough / well-formed per the layout and, when it accepts, sets every field to the value the specification's layout assigns to those bytes; checksum and length-field rejection conditions of Message and V2Session are postconditions. Since the spec's encoding of a value assignment is exactly those byte positions, decoding the encoding of any assignment returns it.",
   note=TB+"; the byte layouts are transcribed from the IPMI/DCMI tables by section (the PDFs in the repository are LFS stubs) using different formulations than the code (div/mod, le16/le32, spec tables); polarity of the per-message/user-level authentication bits and the SELMaxEntries byte order follow the repository's documented choice; values returned by the high-level API wrappers are not yet covered",ref="DESIGN.md s9 C07"),
 'C17':dict(technique="contract-based deductive verification: generated non-interference (2-safety) VCs per observable receiver field over the go/ssa encoding of each decoder, by substitution of an independent prior receiver state (self-composition where control flow depends on state); z3/cvc5; counterexamples replayed (reused vs fresh value) with go test -overlay",
   text="Proof, for every decoder of pkg/ipmi and pkg/dcmi, every input and every pair of prior receiver states, that acceptance and every exported field written by the decoder are functions of the decoded bytes (and declared configuration fields) only. Connection-level reuse (layers overwritten before each send) is not yet covered by this check.",
   note=TB+"; byte slices and strings are compared by length and content, nil-ness of empty slices is not compared; fields a decoder never writes are not outputs",ref="DESIGN.md s9 C17"),
 'C05':dict(technique="contract-based deductive verification: zero-annotation safety VCs (index/slice/nil/div/termination) generated from go/ssa of the real decoders, discharged by z3/cvc5; counterexamples replayed with go test -overlay",
   text="Proof, for every byte string and every prior receiver state, that no layer decoder of pkg/ipmi and pkg/dcmi panics, reads beyond len(data) (bounds are proved against len, not cap) or loops forever; loops are cut by inferred/stated invariants and variants. Unbounded in the input; per-function modular.",
   note=TB+"; the reply-handling code of package bmc and gopacket's layer chaining are covered only where listed in functions_under_contract; cipher.Block is AES (block size 16); decrypted bytes are arbitrary (uninterpreted), which covers payloads crafted by a key holder",ref="DESIGN.md s9 C05"),
}
na={i:"check not built yet (engine under construction); see DESIGN.md section 9" for i in ids}
checks=[]
for i in ids:
    if i in claimed:
        c=claimed[i]
        checks.append({"property_id":i,"quick_cmd":"./check %s quick"%i,"thorough_cmd":"./check %s thorough"%i,"evidence_file":"/verif/evidence/%s.json"%i,
          "replay_cmd_template":"cat {path}   # the replay record contains the generated in-package test; re-run it with: /verif/bin/bmcvc check %s"%i,
          "engine":"bmcvc","level_claimed":{"category":"proof","text":c['text'],"design_ref":c['ref']},"level_note":c['note'],"technique":c['technique']})
        na.pop(i)
m={"version":1,
 "setup_cmd":"cd /verif/engine && GOFLAGS=-mod=mod GOPROXY=off GOSUMDB=off GOTOOLCHAIN=local go build -o /verif/bin/bmcvc .",
 "hooks":{"guard":"verif","enable":"the engine loads /repo with -tags=verif and overlays the contract files of /verif/contracts (byte-identical copies are committed in /repo as zz_contracts*_verif.go / zz_prelude_verif.go)","baseline_off_cmd":"cd /repo && go test -vet=off -count=1 ./...","source_commits":HOOKS,"add_only":True},
 "engines":[{"name":"bmcvc","path":"/verif/engine","serves_properties":sorted(claimed),"kind_free_text":"contract-based deductive verifier for Go written for this task: go/packages+go/ssa of /repo's working tree -> passive weakest-precondition VCs (bit-vector integers, typed field-array heap) -> SMT-LIB, raced on z3 5.1.0 / z3 4.8.12 / cvc5 1.0.3; counterexamples replayed against the real code with go test -overlay"}],
 "checks":checks,
 "not_applicable":[{"property_id":i,"reason":r} for i,r in na.items()],
 "notes":"see DESIGN.md; known_findings.json lists fixed defects (fix: commits in /repo) and any recorded findings"}
json.dump(m,open('/verif/MANIFEST.json','w'),indent=1)
