#!/usr/bin/env python3
# Regenerates /verif/MANIFEST.json from the table below (kept next to the design so the two stay in step).
import json,subprocess
HOOKS=[l.split()[0] for l in subprocess.run(['git','-C','/repo','log','--format=%h %s'],capture_output=True,text=True).stdout.splitlines() if 'verif hooks' in l]
props=[json.loads(l) for l in open('/verif/properties.jsonl')]
ids=[p['id'] for p in props]
TB="trusted: SMT solvers sound for unsat; Go compiler/runtime semantics as encoded (DESIGN.md s5); native models of dependency functions listed in the evidence file; lengths <= 2^40; non-nil non-aliasing pointer parameters"
claimed={
 'C17':dict(technique="contract-based deductive verification: generated non-interference (2-safety) VCs per observable receiver field over the go/ssa encoding of each decoder, by substitution of an independent prior receiver state (self-composition where control flow depends on state); z3/cvc5; counterexamples replayed (reused vs fresh value) with go test -overlay",
   text="Proof, for every decoder of pkg/ipmi and pkg/dcmi, every input and every pair of prior receiver states, that acceptance and every exported field written by the decoder are functions of the decoded bytes (and declared configuration fields) only. Connection-level reuse (layers overwritten before each send) is not yet covered by this check.",
   note=TB+"; byte slices and strings are compared by length and content, nil-ness of empty slices is not compared; fields a decoder never writes are not outputs",ref="DESIGN.md s9 C17"),
 'C05':dict(technique="contract-based deductive verification: zero-annotation safety VCs (index/slice/nil/div/termination) generated from go/ssa of the real decoders, discharged by z3/cvc5; counterexamples replayed with go test -overlay",
   text="Proof, for every byte string and every prior receiver state, that no layer decoder of pkg/ipmi and pkg/dcmi panics, reads beyond len(data) (bounds are proved against len, not cap) or loops forever; loops are cut by inferred/stated invariants and variants. Unbounded in the input; per-function modular.",
   note=TB+"; the reply-handling code of package bmc and gopacket's layer chaining are covered only where listed in functions_under_contract; cipher.Block is AES (block size 16); decrypted bytes are arbitrary (uninterpreted), which covers payloads crafted by a key holder",ref="DESIGN.md s9 C05"),
}
na={i:"check not built yet (engine under construction); see DESIGN.md section 9" for i in ids}
checks=[]
for i in ids:
    if i in claimed:
        c=claimed[i]
        checks.append({"property_id":i,"quick_cmd":"./check %s quick"%i,"thorough_cmd":"./check %s thorough"%i,"evidence_file":"/verif/evidence/%s.json"%i,
          "replay_cmd_template":"cat {path}   # the replay record contains the generated in-package test; re-run it with: /verif/bin/bmcvc check %s"%i,
          "engine":"bmcvc","level_claimed":{"category":"proof","text":c['text'],"design_ref":c['ref']},"level_note":c['note'],"technique":c['technique']})
        na.pop(i)
m={"version":1,
 "setup_cmd":"cd /verif/engine && GOFLAGS=-mod=mod GOPROXY=off GOSUMDB=off GOTOOLCHAIN=local go build -o /verif/bin/bmcvc .",
 "hooks":{"guard":"verif","enable":"the engine loads /repo with -tags=verif and overlays the contract files of /verif/contracts (byte-identical copies are committed in /repo as zz_contracts*_verif.go / zz_prelude_verif.go)","baseline_off_cmd":"cd /repo && go test -vet=off -count=1 ./...","source_commits":HOOKS,"add_only":True},
 "engines":[{"name":"bmcvc","path":"/verif/engine","serves_properties":sorted(claimed),"kind_free_text":"contract-based deductive verifier for Go written for this task: go/packages+go/ssa of /repo's working tree -> passive weakest-precondition VCs (bit-vector integers, typed field-array heap) -> SMT-LIB, raced on z3 5.1.0 / z3 4.8.12 / cvc5 1.0.3; counterexamples replayed against the real code with go test -overlay"}],
 "checks":checks,
 "not_applicable":[{"property_id":i,"reason":r} for i,r in na.items()],
 "notes":"see DESIGN.md; known_findings.json lists fixed defects (fix: commits in /repo) and any recorded findings"}
json.dump(m,open('/verif/MANIFEST.json','w'),indent=1)
