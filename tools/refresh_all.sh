#!/bin/bash
# Regenerates every evidence file from the unchanged tree (quick tier) and refuses to finish if
# /repo is dirty, a check alarms, or an evidence record is inconsistent. Run before committing evidence.
# usage: tools/refresh_all.sh [-lock]   (-lock also rewrites obligations.lock.json per property)
cd /verif
if [ -n "$(git -C /repo status --porcelain)" ]; then echo "refusing: /repo has uncommitted changes"; git -C /repo status --short; exit 2; fi
mkdir -p work/refresh; rm -f work/refresh/*
ids=$(python3 -c "import json;print(' '.join(json.loads(l)['id'] for l in open('/verif/properties.jsonl')))")
if [ "$1" = "-lock" ]; then
  for id in $ids; do ./bin/bmcvc check -writelock $id > work/refresh/lock.$id.log 2>&1 || { echo "writelock $id failed"; tail -5 work/refresh/lock.$id.log; exit 1; }; done
fi
printf '%s\n' $ids | xargs -P 4 -I{} sh -c './check {} quick > work/refresh/{}.log 2>&1; echo $? > work/refresh/{}.rc'
bad=0
for id in $ids; do
  rc=$(cat work/refresh/$id.rc)
  if [ "$rc" != 0 ] || grep -q '^VIOLATION' work/refresh/$id.log; then echo "ALARM $id exit=$rc"; grep '^VIOLATION\|fault' work/refresh/$id.log | head -5; bad=1; fi
done
python3 - <<'PY' || bad=1
import json,sys
bad=0
for l in open('/verif/properties.jsonl'):
    i=json.loads(l)['id']
    e=json.load(open('/verif/evidence/%s.json'%i))
    c=e['coverage']
    if c.get('obligations')!=c.get('discharged') or e.get('tier')!='quick':
        print('INCONSISTENT',i,c.get('obligations'),c.get('discharged'),e.get('tier')); bad=1
sys.exit(bad)
PY
[ $bad = 0 ] && echo "all 20 checks pass on the unchanged tree; evidence consistent"
exit $bad
