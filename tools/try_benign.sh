#!/bin/bash
# usage: tools/try_benign.sh <patch.diff>
# Applies a behaviour-preserving edit to a scratch copy of /repo and runs the quick checks of every property
# that has a function under contract in a touched file (plus the package-wide scans); prints the alarms.
cd /verif
export GOFLAGS=-mod=mod GOPROXY=off GOSUMDB=off GOTOOLCHAIN=local
patchf=$(readlink -f "$1")
d=/tmp/bmc-benign.$$; rm -rf $d; mkdir -p $d/repo $d/out
trap 'rm -rf $d' EXIT
rsync -a --exclude .git /repo/ $d/repo/
(cd $d/repo && patch -p1 -s < "$patchf") || { echo "patch does not apply"; exit 3; }
(cd $d/repo && go build ./... ) || { echo "does not build"; exit 3; }
props=$(python3 - "$patchf" <<'PY'
import re,sys,glob,subprocess,os
files=set(re.findall(r'^\+\+\+ b/(\S+)',open(sys.argv[1]).read(),re.M))
props=set(['C02','C09','C11','C13','C19'])
for cf in glob.glob('/verif/contracts/**/*_verif.go',recursive=True):
    rel=os.path.dirname(os.path.relpath(cf,'/verif/contracts'))
    fn=None
    for line in open(cf):
        m=re.match(r'//@ func (\S+)',line)
        if m: fn=m.group(1); continue
        m=re.match(r'//@ props (.*)',line)
        if m and fn:
            base=re.sub(r'\$\d+$','',fn).split('.')[-1].split('@')[0]
            for f in files:
                if os.path.dirname(f)==rel or (rel=='' and '/' not in f):
                    src=open('/repo/'+f).read() if os.path.exists('/repo/'+f) else ''
                    if re.search(r'func (\([^)]*\) )?%s\b'%re.escape(base),src) or base=='init':
                        props.update(m.group(1).split())
            fn=None
print(' '.join(sorted(props)))
PY
)
echo "properties: $props"
for p in $props; do echo $p; done | xargs -P 4 -I{} sh -c "/verif/bin/bmcvc check --tier quick --timeout 20s -repo $d/repo -out $d/out {} > $d/{}.log 2>&1; echo \$? > $d/{}.rc"
alarms=0
for p in $props; do
  rc=$(cat $d/$p.rc)
  if [ "$rc" != 0 ]; then alarms=$((alarms+1)); echo "ALARM $p exit=$rc"; grep 'no longer\|refuted\|fails\|fault\|UNDECIDED' $d/$p.log | cut -c1-260 | head -4; fi
done
echo "alarms: $alarms"
